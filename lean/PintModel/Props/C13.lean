/-
  C13 — slicing a range query is invisible in its result.
  Proved here, for the model of range.go / range_normalize.go in Model/Range.lean:
  * `C13_holds : C13_statement` — the property at full strength: for every start, end, lookback and step ≥ 1s, every
    presence pattern of a series and every arrival order of the slice answers, the merged ranges are exactly the runs of
    one unsliced evaluation on the same grid.  Built from
  * `overlaps_stair`, `absorb_eq`, `fam_step`, `cov_step`, `mergePass_spec`, `rec_spec` — the MergeRanges fixpoint over
    whole lists: a family invariant (`Fam`: ranges strictly ordered in both coordinates, touching or more than a step
    apart, nothing strictly between two near ranges) is preserved by every inner-loop step, coverage is preserved, the
    fuel suffices, a quiet pass is a fixpoint;
  * `canon_unique`, `mergeSeries_canon`, `merge_order_independent`, `merge_is_canonical` — the result is the unique
    canonical list (sorted, every two ranges more than a step apart) covering the same seconds, so it does not depend
    on the arrival order;
  * `fam_of_aligned`, `fold_inv`, `outRuns_facts`, `sliceRanges_eq` — what a slice hands over (AppendSampleToRanges +
    ExpandRangesEnd on grid samples) is grid aligned and disjoint, hence a family; the unsliced runs are canonical;
  * `plan_ok`, `sliced_eq_unsliced` — the slice plan of RangeQuery tiles the grid of its first slice.
  Earlier, pairwise results kept: adjacent ⇒ hull in both argument orders, separated ⇒ no merge, any merge is a hull.
-/
import PintModel.Model.Range
import PintModel.Gen.RangeSrc
import PintModel.Spec.Presence
set_option linter.unusedSimpArgs false
namespace Pint.Props.C13
open Pint.Range Pint.Spec.Presence

/-- two ranges of one series are *adjacent*: the second starts one second after the first ends
    (what a run crossing a slice boundary looks like after `ExpandRangesEnd`) -/
def Adjacent (a b : MTR) : Prop := a.fp = b.fp ∧ a.s ≤ a.e ∧ b.s ≤ b.e ∧ b.s = a.e + 1
/-- two ranges of one series are *separated*: more than a step lies between them (a missing sample) -/
def Separated (a b : MTR) (step : Int) : Prop := a.s ≤ a.e ∧ b.s ≤ b.e ∧ a.e + step < b.s

theorem iabs_le (x k : Int) : iabs x ≤ k ↔ (-k ≤ x ∧ x ≤ k) := by
  unfold iabs; split <;> omega

/-- consecutive samples merge across a slice boundary: adjacent ranges merge into their hull,
    whichever of the two arrived first -/
theorem overlaps_adjacent (a b : MTR) (step : Int) (hs : 1 ≤ step) (h : Adjacent a b) :
    overlaps a b step = some ⟨a.s, b.e⟩ ∧ overlaps b a step = some ⟨a.s, b.e⟩ := by
  obtain ⟨hfp, ha, hb, hab⟩ := h
  constructor
  · unfold overlaps
    simp only [hfp, ne_eq, not_true_eq_false, if_false, iabs_le]
    split
    · rename_i h1
      have m1 : min a.s b.s = a.s := by omega
      have m2 : max a.e b.e = b.e := by omega
      rw [m1, m2]
    · split
      · rfl
      · split
        · omega
        · split
          · rfl
          · rename_i h4
            exfalso; apply h4; omega
  · unfold overlaps
    simp only [hfp, ne_eq, not_true_eq_false, if_false, iabs_le]
    split
    · rename_i h1
      have m1 : min b.s a.s = a.s := by omega
      have m2 : max b.e a.e = b.e := by omega
      rw [m1, m2]
    · split
      · omega
      · split
        · omega
        · split
          · omega
          · split
            · rfl
            · rename_i h5
              exfalso; apply h5; omega

/-- a single missing sample always produces a gap: separated ranges are never merged, in either order -/
theorem overlaps_separated (a b : MTR) (step : Int) (hs : 0 ≤ step) (h : Separated a b step) :
    overlaps a b step = none ∧ overlaps b a step = none := by
  obtain ⟨ha, hb, hab⟩ := h
  constructor <;>
  · unfold overlaps
    simp only [iabs_le]
    repeat' split
    all_goals first | rfl | (exfalso; omega)

/-- whenever `Overlaps` merges, the result is exactly the hull of the two ranges and the two ranges
    are connected (overlapping, or at most `step` apart): merging never bridges a gap of more than a
    step and never invents or loses coverage -/
theorem overlaps_some_is_hull (a b : MTR) (step : Int) (hs : 0 ≤ step) (ha : a.s ≤ a.e) (hb : b.s ≤ b.e) (c : TR)
    (h : overlaps a b step = some c) :
    c.s = min a.s b.s ∧ c.e = max a.e b.e ∧ a.s ≤ b.e + step ∧ b.s ≤ a.e + step := by
  unfold overlaps at h
  simp only [iabs_le] at h
  repeat' split at h
  all_goals first
    | (cases h; done)
    | (cases h; (try dsimp only); refine ⟨by omega, by omega, by omega, by omega⟩)

/-! ### per-slice folding of samples into ranges -/

def mk (fp : Nat) (p : Int × Int) : MTR := ⟨fp, p.1, p.2⟩
def render (fp : Nat) (acc : List (Int × Int)) : List MTR := acc.reverse.map (mk fp)

/-- earlier ranges that ended more than a step before `t` are skipped by `appendSample` -/
theorem appendSample_skip (step : Int) (fp : Nat) (t : Int) (init rest : List MTR)
    (h : ∀ r ∈ init, r.fp = fp → r.e + step < t ∧ r.s < t) :
    appendSample step fp t (init ++ rest) = init ++ appendSample step fp t rest := by
  induction init with
  | nil => rfl
  | cons r init ih =>
    have hr := h r (by simp)
    have ih' := ih (fun x hx => h x (by simp [hx]))
    simp only [List.cons_append, appendSample]
    by_cases hfp : r.fp = fp
    · obtain ⟨h1, h2⟩ := hr hfp
      have c1 : ¬ (r.s - step ≤ t ∧ t ≤ r.s) := by omega
      have c2 : ¬ (r.s ≤ t ∧ t ≤ r.e + step) := by omega
      simp [hfp, c1, c2, ih']
    · simp [hfp, ih']

/-- the last range either takes the sample (at most a step later) or a new range is opened -/
theorem appendSample_last (step : Int) (fp : Nat) (t a b : Int) (hab : a ≤ b) (hbt : b < t) :
    appendSample step fp t [⟨fp, a, b⟩] =
      if t ≤ b + step then [⟨fp, a, t⟩] else [⟨fp, a, b⟩, ⟨fp, t, t⟩] := by
  have c1 : ¬ (a - step ≤ t ∧ t ≤ a) := by omega
  simp only [appendSample, ne_eq, not_true_eq_false, if_false, c1]
  by_cases h : t ≤ b + step
  · have : a ≤ t ∧ t ≤ b + step := ⟨by omega, h⟩
    simp [this, h]
  · have : ¬ (a ≤ t ∧ t ≤ b + step) := by omega
    simp [this, h]

/-- invariant of the fold: runs are well-formed and every older run ended more than a step before the
    current one started -/
def Inv (step : Int) : List (Int × Int) → Prop
  | [] => True
  | (a, b) :: rest => a ≤ b ∧ ∀ r ∈ rest, r.1 ≤ r.2 ∧ r.2 + step < a

theorem inv_addRun (step : Int) (hs : 0 ≤ step) (acc : List (Int × Int)) (t : Int) (hi : Inv step acc)
    (ht : ∀ a b rest, acc = (a, b) :: rest → b < t) : Inv step (addRun step acc t) := by
  cases acc with
  | nil => simp [addRun, Inv]
  | cons p rest =>
    obtain ⟨a, b⟩ := p
    obtain ⟨hab, hrest⟩ := hi
    have hbt := ht a b rest rfl
    simp only [addRun]
    split
    · exact ⟨by omega, hrest⟩
    · refine ⟨by omega, ?_⟩
      intro r hr
      cases List.mem_cons.1 hr with
      | inl h => subst h; exact ⟨hab, by omega⟩
      | inr h => have := hrest r h; exact ⟨this.1, by omega⟩

/-- one sample: the code's step on the rendered ranges is the spec's step on the runs -/
theorem appendSample_render (step : Int) (hs : 0 ≤ step) (fp : Nat) (acc : List (Int × Int)) (t : Int)
    (hi : Inv step acc) (ht : ∀ a b rest, acc = (a, b) :: rest → b < t) :
    appendSample step fp t (render fp acc) = render fp (addRun step acc t) := by
  cases acc with
  | nil => simp [render, addRun, appendSample, mk]
  | cons p rest =>
    obtain ⟨a, b⟩ := p
    obtain ⟨hab, hrest⟩ := hi
    have hbt := ht a b rest rfl
    have hskip := appendSample_skip step fp t (rest.reverse.map (mk fp)) [⟨fp, a, b⟩] (by
      intro r hr _
      simp only [List.mem_map, List.mem_reverse] at hr
      obtain ⟨q, hq, rfl⟩ := hr
      have := hrest q hq
      simp only [mk]
      omega)
    have hlast := appendSample_last step fp t a b hab hbt
    simp only [render, List.reverse_cons, List.map_append, List.map_cons, List.map_nil, mk] at *
    rw [hskip, hlast]
    simp only [addRun]
    split <;> simp [mk]

/-- per slice, samples arriving in ascending order are folded into exactly the maximal runs of
    samples at most a step apart (`AppendSampleToRanges` = `Spec.Presence.runs`), for any number of
    samples and any gaps -/
theorem append_is_runs_from (step : Int) (hs : 0 ≤ step) (fp : Nat) (ts : List Int) :
    ∀ (acc : List (Int × Int)), Inv step acc →
      (∀ a b rest, acc = (a, b) :: rest → Asc b ts) → (acc = [] → ∃ lo, Asc lo ts) →
      appendSamples step fp ts (render fp acc) = render fp (ts.foldl (addRun step) acc) := by
  induction ts with
  | nil => intro acc _ _ _; simp [appendSamples]
  | cons t ts ih =>
    intro acc hi hasc hnil
    have ht : ∀ a b rest, acc = (a, b) :: rest → b < t := fun a b rest h => (hasc a b rest h).1
    simp only [appendSamples, List.foldl_cons]
    rw [appendSample_render step hs fp acc t hi ht]
    have hi' := inv_addRun step hs acc t hi ht
    have hasc' : ∀ a b rest, addRun step acc t = (a, b) :: rest → Asc b ts := by
      intro a b rest h
      have htail : Asc t ts := by
        cases acc with
        | nil => obtain ⟨lo, hlo⟩ := hnil rfl; exact hlo.2
        | cons p r => obtain ⟨a0, b0⟩ := p; exact (hasc a0 b0 r rfl).2
      cases acc with
      | nil => simp only [addRun, List.cons.injEq, Prod.mk.injEq] at h; obtain ⟨⟨_, hb⟩, _⟩ := h; subst hb; exact htail
      | cons p r =>
        obtain ⟨a0, b0⟩ := p
        simp only [addRun] at h
        split at h
        · simp only [List.cons.injEq, Prod.mk.injEq] at h; obtain ⟨⟨_, hb⟩, _⟩ := h; subst hb; exact htail
        · simp only [List.cons.injEq, Prod.mk.injEq] at h; obtain ⟨⟨_, hb⟩, _⟩ := h; subst hb; exact htail
    have := ih (addRun step acc t) hi' hasc' (by
      intro h
      cases acc with
      | nil => simp [addRun] at h
      | cons p r => obtain ⟨a0, b0⟩ := p; simp only [addRun] at h; split at h <;> simp at h)
    simpa [appendSamples] using this

theorem append_is_runs (step : Int) (hs : 0 ≤ step) (fp : Nat) (lo : Int) (ts : List Int) (h : Asc lo ts) :
    appendSamples step fp ts [] = (runs step ts).map (mk fp) := by
  have := append_is_runs_from step hs fp ts [] (by simp [Inv]) (by intro a b rest h; cases h) (fun _ => ⟨lo, h⟩)
  simpa [render, runs] using this

/-! ### the slice plan -/

/-- consecutive slices: each starts one second after the previous one ends -/
def Contig : List TR → Prop
  | [] => True
  | [_] => True
  | x :: y :: r => y.s = x.e + 1 ∧ Contig (y :: r)

/-- untrimmed slices: each starts where the previous one ends, `size` after its own start -/
def ChainFrom (size : Int) : Int → List TR → Prop
  | _, [] => True
  | k, [x] => x.s = k
  | k, x :: y :: r => x.s = k ∧ x.e = k + size ∧ ChainFrom size (k + size) (y :: r)

theorem sliceLoop_chain (size end_ : Int) (fuel : Nat) (k : Int) : ChainFrom size k (sliceLoop fuel k end_ size) := by
  induction fuel generalizing k with
  | zero => simp [sliceLoop, ChainFrom]
  | succ f ih =>
    simp only [sliceLoop]
    split
    · have ihk := ih (k + size)
      cases hrest : sliceLoop f (k + size) end_ size with
      | nil => simp [ChainFrom]
      | cons y r =>
        rw [hrest] at ihk
        refine ⟨rfl, ?_, ihk⟩
        -- the next iteration ran, so k + size < end_ and this slice was not clipped
        cases f with
        | zero => simp [sliceLoop] at hrest
        | succ f' =>
          simp only [sliceLoop] at hrest
          split at hrest
          · rename_i hlt; simp only []; split <;> omega
          · cases hrest
    · simp [ChainFrom]

theorem trimEnds_contig (size : Int) (k : Int) (l : List TR) (h : ChainFrom size k l) : Contig (trimEnds l) := by
  induction l generalizing k with
  | nil => simp [trimEnds, Contig]
  | cons x rest ih =>
    cases rest with
    | nil => simp [trimEnds, Contig]
    | cons y r =>
      obtain ⟨hx, hxe, hrest⟩ := h
      have ihr := ih (k + size) hrest
      have hy : y.s = k + size := by
        cases r with
        | nil => exact hrest
        | cons z r' => exact hrest.1
      cases r with
      | nil => simp only [trimEnds, Contig]; exact ⟨by omega, trivial⟩
      | cons z r' =>
        simp only [trimEnds] at ihr ⊢
        refine ⟨by (try dsimp only); omega, ihr⟩

/-- the slices `sliceRange` produces are consecutive with one-second seams, for every start, end,
    resolution and slice size (whenever it terminates) -/
theorem slices_contiguous (start end_ res size : Int) (l : List TR)
    (h : sliceRange start end_ res size = some l) : Contig l := by
  unfold sliceRange at h
  split at h
  · cases h; simp [Contig]
  · split at h
    · cases h
    · rename_i hres hsize
      simp only [Option.some.injEq] at h
      subst h
      by_cases hr : roundTime start size > start
      · simp only [hr, if_true]
        apply trimEnds_contig size (roundTime start size - size)
        have hc := sliceLoop_chain size end_ ((end_ - roundTime start size) / size + 2).toNat (roundTime start size)
        cases hl : sliceLoop ((end_ - roundTime start size) / size + 2).toNat (roundTime start size) end_ size with
        | nil => simp [ChainFrom]
        | cons y r =>
          rw [hl] at hc
          have hy : y.s = roundTime start size := by
            cases r with
            | nil => exact hc
            | cons z r' => exact hc.1
          -- the loop ran at least once, so rstart < end_ and the first slice was not clipped
          have hlt : roundTime start size < end_ := by
            cases hf : ((end_ - roundTime start size) / size + 2).toNat with
            | zero => rw [hf] at hl; simp [sliceLoop] at hl
            | succ f =>
              rw [hf] at hl
              simp only [sliceLoop] at hl
              split at hl
              · assumption
              · cases hl
          refine ⟨rfl, ?_, ?_⟩
          · simp only []; split <;> omega
          · have : roundTime start size - size + size = roundTime start size := by omega
            rw [this]; exact hc
      · simp only [hr, if_false, List.nil_append]
        exact trimEnds_contig size _ _ (sliceLoop_chain size end_ _ _)

theorem sliceLoop_last (size end_ : Int) (hsz : 0 < size) (fuel : Nat) (k : Int) (hk : k < end_)
    (hf : end_ - k ≤ fuel * size) :
    ((sliceLoop fuel k end_ size).getLast?).map (·.e) = some end_ := by
  induction fuel generalizing k with
  | zero => simp at hf; omega
  | succ f ih =>
    simp only [sliceLoop, hk, if_true]
    by_cases hnext : k + size < end_
    · have hf' : end_ - (k + size) ≤ f * size := by
        have : ((f + 1 : Nat) : Int) * size = f * size + size := by
          rw [Int.natCast_add]; simp [Int.add_mul]
        omega
      have := ih (k + size) hnext hf'
      cases hl : sliceLoop f (k + size) end_ size with
      | nil => rw [hl] at this; simp at this
      | cons y r =>
        rw [hl] at this
        simpa [List.getLast?_cons_cons] using this
    · have hnil : sliceLoop f (k + size) end_ size = [] := by
        cases f with
        | zero => rfl
        | succ f' => simp [sliceLoop, hnext]
      rw [hnil]
      simp only [List.getLast?_singleton, Option.map_some, Option.some.injEq]
      split <;> omega

theorem trimEnds_last (l : List TR) : ((trimEnds l).getLast?).map (·.e) = (l.getLast?).map (·.e) := by
  induction l with
  | nil => rfl
  | cons x rest ih =>
    cases rest with
    | nil => rfl
    | cons y r =>
      simp only [trimEnds]
      cases hr : trimEnds (y :: r) with
      | nil => cases r <;> simp [trimEnds] at hr
      | cons z r' =>
        rw [hr] at ih
        simpa [List.getLast?_cons_cons] using ih

/-- the last slice ends exactly at `end`: the plan reaches the end of the requested range -/
theorem slices_reach_end (start end_ res size : Int) (hres : 0 ≤ res) (l : List TR)
    (h : sliceRange start end_ res size = some l) : (l.getLast?).map (·.e) = some end_ := by
  unfold sliceRange at h
  split at h
  · cases h; rfl
  · split at h
    · cases h
    · rename_i hgap hsize
      have hsz : 0 < size := by omega
      simp only [Option.some.injEq] at h
      subst h
      rw [trimEnds_last]
      by_cases hlt : roundTime start size < end_
      · -- the loop runs; its last slice ends at end_
        have hfuel : end_ - roundTime start size ≤ (((end_ - roundTime start size) / size + 2).toNat : Int) * size := by
          have hq := Int.mul_ediv_add_emod (end_ - roundTime start size) size
          have hm := Int.emod_lt_of_pos (end_ - roundTime start size) hsz
          have hm0 := Int.emod_nonneg (end_ - roundTime start size) (by omega : size ≠ 0)
          have hqn : 0 ≤ (end_ - roundTime start size) / size := Int.ediv_nonneg (by omega) (by omega)
          have : (((end_ - roundTime start size) / size + 2).toNat : Int) = (end_ - roundTime start size) / size + 2 := by
            rw [Int.toNat_of_nonneg]; omega
          rw [this, Int.add_mul]
          have : size * ((end_ - roundTime start size) / size) = (end_ - roundTime start size) / size * size := Int.mul_comm _ _
          omega
        have hlast := sliceLoop_last size end_ hsz _ (roundTime start size) hlt hfuel
        cases hl : sliceLoop ((end_ - roundTime start size) / size + 2).toNat (roundTime start size) end_ size with
        | nil => rw [hl] at hlast; simp at hlast
        | cons y r =>
          rw [hl] at hlast
          rw [List.getLast?_append]
          cases hg : (y :: r).getLast? with
          | none => rw [hg] at hlast; simp at hlast
          | some z => rw [hg] at hlast; simpa using hlast
      · -- the loop does not run: only the first (clipped) slice exists
        have hnil : sliceLoop ((end_ - roundTime start size) / size + 2).toNat (roundTime start size) end_ size = [] := by
          cases ((end_ - roundTime start size) / size + 2).toNat with
          | zero => rfl
          | succ f => simp [sliceLoop, hlt]
        rw [hnil, List.append_nil]
        have hr : roundTime start size > start := by omega
        simp only [hr, if_true, List.getLast?_singleton, Option.map_some, Option.some.injEq]
        split <;> omega

/-- `(2h).Round(step)` is zero exactly when the step exceeds four hours (the reason `RangeQuery`
    falls back to the step itself as slice size) -/
theorem slice_size_zero_iff (step : Int) (hs : 0 < step) : roundDur 7200 step = 0 ↔ 14400 < step := by
  unfold roundDur
  have h0 : ¬ step ≤ 0 := by omega
  simp only [h0, if_false]
  have hmod := Int.emod_lt_of_pos 7200 hs
  have hmod0 := Int.emod_nonneg 7200 (by omega : step ≠ 0)
  by_cases hbig : 7200 < step
  · have he : (7200 : Int) % step = 7200 := Int.emod_eq_of_lt (by omega) hbig
    rw [he]
    split <;> omega
  · split <;> omega

/-- the slice size `RangeQuery` uses is positive for every positive step, so slicing terminates -/
theorem sliceSize_pos (step : Int) (hs : 0 < step) : 0 < sliceSize step := by
  unfold sliceSize
  simp only []
  split
  · exact hs
  · omega

/-- slicing always terminates with a plan: `plan` never answers `none` for a positive step -/
theorem plan_terminates (start end_ lookback step : Int) (hs : 0 < step) :
    ∃ l, plan start end_ lookback step = some l := by
  unfold plan
  simp only []
  split
  · exact ⟨_, rfl⟩
  · unfold sliceRange
    have := sliceSize_pos step hs
    split
    · exact ⟨_, rfl⟩
    · have h0 : ¬ sliceSize step ≤ 0 := by omega
      simp only [h0, if_false]
      exact ⟨_, rfl⟩

theorem sliceRange_none_of_zero (start end_ res : Int) (h : res < end_ - start) :
    sliceRange start end_ res 0 = none := by
  unfold sliceRange
  have : ¬ end_ - start ≤ res := by omega
  simp [this]

/-- the slice size pint chooses is a whole number of steps, so the per-slice sample grids line up
    into one global grid -/
theorem slice_size_multiple_of_step (step : Int) (hs : 0 < step) : sliceSize step % step = 0 := by
  unfold sliceSize
  simp only []
  split
  · exact Int.emod_self
  unfold roundDur
  have h0 : ¬ step ≤ 0 := by omega
  simp only [h0, if_false]
  split
  · rw [Int.sub_emod, Int.emod_emod_of_dvd _ (Int.dvd_refl step)]; simp
  · have : (7200 + step - 7200 % step) = step + (7200 - 7200 % step) := by omega
    rw [this, Int.add_emod, Int.emod_self, Int.sub_emod, Int.emod_emod_of_dvd _ (Int.dvd_refl step)]; simp

/-! ### two ranges through the whole merge (either arrival order) -/

theorem mergeRec_single (step : Int) (f : Nat) (x : MTR) : mergeRec step f [x] = ([x], false) := by
  cases f with
  | zero => simp [mergeRec]
  | succ f => simp [mergeRec, mergePass, absorb]

/-- a run that crosses a slice boundary comes back as ONE range, whichever slice answered first -/
theorem merge_two_adjacent (a b : MTR) (step : Int) (hs : 1 ≤ step) (h : Adjacent a b) :
    mergeSeries step [a, b] = [⟨a.fp, a.s, b.e⟩] ∧ mergeSeries step [b, a] = [⟨a.fp, a.s, b.e⟩] := by
  obtain ⟨h1, h2⟩ := overlaps_adjacent a b step hs h
  have hfp := h.1
  constructor
  · simp [mergeSeries, mergeRec, mergePass, absorb, h1, mergeLoop, mergeRec_single, sortByStart, insertSorted]
  · simp [mergeSeries, mergeRec, mergePass, absorb, h2, mergeLoop, mergeRec_single, sortByStart, insertSorted, hfp]

/-- a missing sample keeps two ranges apart, whichever slice answered first; the result is sorted -/
theorem merge_two_separated (a b : MTR) (step : Int) (hs : 0 ≤ step) (h : Separated a b step) :
    mergeSeries step [a, b] = [a, b] ∧ mergeSeries step [b, a] = [a, b] := by
  obtain ⟨h1, h2⟩ := overlaps_separated a b step hs h
  obtain ⟨ha, hb, hab⟩ := h
  have hlt : ¬ b.s ≤ a.s := by omega
  have hle : a.s ≤ b.s := by omega
  constructor
  · simp [mergeSeries, mergeRec, mergePass, absorb, h1, sortByStart, insertSorted, hle]
  · simp [mergeSeries, mergeRec, mergePass, absorb, h2, sortByStart, insertSorted, hlt]

/-! ### the full statement (proved at the end of this file: `C13_holds`) -/

/-- sample instants of one slice `[s, e]` on its own grid -/
def gridSamples (present : Int → Bool) (s e step : Int) : List Int :=
  (List.range ((e - s) / step + 1).toNat).filterMap fun (k : Nat) =>
    let t : Int := s + (k : Int) * step
    if present t then some t else none

/-- what one slice answers for one series, after `ExpandRangesEnd` -/
def sliceRanges (step : Int) (fp : Nat) (present : Int → Bool) (sl : TR) : List MTR :=
  expandEnds step (appendSamples step fp (gridSamples present sl.s sl.e step) [])

/-- C13 at full strength: for every start/end/step (step ≥ 1s), every presence pattern and every
    arrival order of the slice answers, merging gives exactly the runs of one unsliced evaluation on
    the same grid. -/
def C13_statement : Prop :=
  ∀ (start end_ lookback step : Int) (fp : Nat) (present : Int → Bool) (slices arrival : List TR),
    1 ≤ step → start ≤ end_ →
    plan start end_ lookback step = some slices → arrival.Perm slices →
    mergeSeries step (arrival.flatMap (sliceRanges step fp present)) =
      expandEnds step ((runs step (gridSamples present (slices.headD ⟨start, end_⟩).s end_ step)).map (mk fp))

/-- non-vacuity / sanity: a gap of two steps splits, one step does not -/
theorem runs_demo : runs 60 [0, 60, 120, 240, 300] = [(0, 120), (240, 300)] ∧ Asc (-1) [0, 60, 120, 240, 300] := by
  refine ⟨by decide, ?_⟩
  simp [Asc]


set_option linter.unusedVariables false

/-! ## the MergeRanges fixpoint over whole lists, any arrival order -/

/-- not more than `step` apart (the negation of "separated" in either direction) -/
def near (a b : MTR) (step : Int) : Bool := decide (a.s ≤ b.e + step ∧ b.s ≤ a.e + step)

/-- the relation every two ranges of a family keep: strictly ordered in both coordinates, and either touching
(no uncovered second between them) or more than a step apart -/
def Rel (step : Int) (x y : MTR) : Prop :=
  (x.s < y.s ∧ x.e < y.e ∧ (y.s ≤ x.e + 1 ∨ x.e + step < y.s)) ∨
  (y.s < x.s ∧ y.e < x.e ∧ (x.s ≤ y.e + 1 ∨ y.e + step < x.s))

def F2 (step : Int) (x y z : MTR) : Prop := x.s < y.s → y.s < z.s → x.e + step < z.s

/-- `x'` is what the inner loop of MergeRanges made of `x` when `src` came by: untouched, or the hull -/
def Became (step : Int) (src x x' : MTR) : Prop :=
  (x'.s = x.s ∧ x'.e = x.e) ∨ (x.s ≤ src.e + step ∧ src.s ≤ x.e + step ∧ x'.s = min x.s src.s ∧ x'.e = max x.e src.e)

theorem rel_symm {step : Int} {x y : MTR} (h : Rel step x y) : Rel step y x := by
  unfold Rel at *; omega

theorem rel_irrefl (step : Int) (x : MTR) : ¬ Rel step x x := by
  unfold Rel; omega

/-- `Overlaps` on two ranges that are strictly ordered in both coordinates: fires exactly when they are near, with the
hull, whichever is the first argument -/
theorem overlaps_stair (a b : MTR) (step : Int) (hs : 0 ≤ step) (hfp : a.fp = b.fp) (ha : a.s ≤ a.e) (hb : b.s ≤ b.e)
    (hst : (a.s < b.s ∧ a.e < b.e) ∨ (b.s < a.s ∧ b.e < a.e)) :
    overlaps a b step = if near a b step then some ⟨min a.s b.s, max a.e b.e⟩ else none := by
  cases ho : overlaps a b step with
  | some c =>
    obtain ⟨h1, h2, h3, h4⟩ := overlaps_some_is_hull a b step hs ha hb c ho
    have : near a b step = true := by simp [near]; omega
    rw [this]; simp
    cases c; simp_all
  | none =>
    have : near a b step = false := by
      unfold overlaps at ho
      simp only [hfp, ne_eq, not_true_eq_false, if_false, iabs_le] at ho
      simp only [near, decide_eq_false_iff_not]
      repeat' split at ho
      all_goals first | (cases ho; done) | omega
    rw [this]; simp

theorem order_kept (step : Int) (src x y x' y' : MTR)
    (rxy : Rel step x y) (hx : Became step src x x') (hy : Became step src y y')
    (u6 : F2 step src y x) (h : x'.s < y'.s) : x.s < y.s := by
  unfold F2 Rel Became at *
  omega

theorem far2_core (step : Int) (src x y z x' y' z' : MTR)
    (hxy : x.s < y.s) (hyz : y.s < z.s)
    (rxs : Rel step x src) (rys : Rel step y src) (rzs : Rel step z src)
    (hx : Became step src x x') (hz : Became step src z z')
    (t1 : F2 step x y z) (u1 : F2 step x y src) (w5 : F2 step src y z) :
    x'.e + step < z'.s := by
  unfold F2 Rel Became at *
  omega

theorem rel_core (step : Int) (hs : 1 ≤ step) (src x y x' y' : MTR)
    (wx : x.s ≤ x.e) (wy : y.s ≤ y.e) (ws : src.s ≤ src.e)
    (rxy : Rel step x y) (rxs : Rel step x src) (rys : Rel step y src)
    (hx : Became step src x x') (hy : Became step src y y')
    (u1 : F2 step x y src) (u2 : F2 step x src y) (u3 : F2 step y x src) (u4 : F2 step y src x) (u5 : F2 step src x y) (u6 : F2 step src y x) :
    Rel step x' y' := by
  unfold F2 Rel Became at *
  rcases rxy with ⟨a, b, c⟩ | ⟨a, b, c⟩
  · clear u3 u4 u6
    rcases hx with ⟨p, q⟩ | ⟨p, q, r, t⟩ <;> rcases hy with ⟨p', q'⟩ | ⟨p', q', r', t'⟩ <;> rcases rxs with ⟨d, e, f⟩ | ⟨d, e, f⟩ <;> rcases rys with ⟨d', e', f'⟩ | ⟨d', e', f'⟩ <;> omega
  · clear u1 u2 u5
    rcases hx with ⟨p, q⟩ | ⟨p, q, r, t⟩ <;> rcases hy with ⟨p', q'⟩ | ⟨p', q', r', t'⟩ <;> rcases rxs with ⟨d, e, f⟩ | ⟨d, e, f⟩ <;> rcases rys with ⟨d', e', f'⟩ | ⟨d', e', f'⟩ <;> omega

/-- what the inner loop of MergeRanges does to one accumulated range -/
def gmap (step : Int) (src m : MTR) : MTR :=
  if near m src step then { m with s := min m.s src.s, e := max m.e src.e } else m

theorem became_gmap (step : Int) (src m : MTR) : Became step src m (gmap step src m) := by
  unfold Became gmap
  cases h : near m src step with
  | false => simp
  | true =>
    simp only [near, decide_eq_true_eq] at h
    right; exact ⟨h.1, h.2, by simp, by simp⟩

theorem became_self (step : Int) (src m : MTR) : Became step src m m := Or.inl ⟨rfl, rfl⟩

/-- a family of ranges of one series as MergeRanges meets them in a range query -/
structure Fam (step : Int) (fp : Nat) (F : List MTR) : Prop where
  wf : ∀ x ∈ F, x.fp = fp ∧ x.s ≤ x.e
  rel : F.Pairwise (Rel step)
  far2 : ∀ x ∈ F, ∀ y ∈ F, ∀ z ∈ F, F2 step x y z

theorem rel_of_mem {step : Int} {F : List MTR} (h : F.Pairwise (Rel step)) {x y : MTR} (hx : x ∈ F) (hy : y ∈ F) (hne : x ≠ y) :
    Rel step x y := by
  induction F with
  | nil => simp at hx
  | cons a F ih =>
    rw [List.pairwise_cons] at h
    rcases List.mem_cons.mp hx with rfl | hx' <;> rcases List.mem_cons.mp hy with rfl | hy'
    · exact absurd rfl hne
    · exact h.1 y hy'
    · exact rel_symm (h.1 x hx')
    · exact ih h.2 hx' hy'

theorem Fam.perm {step : Int} {fp : Nat} {F G : List MTR} (h : Fam step fp F) (p : F.Perm G) : Fam step fp G :=
  ⟨fun x hx => h.wf x (p.symm.subset hx),
   h.rel.perm p (fun r => rel_symm r),
   fun x hx y hy z hz => h.far2 x (p.symm.subset hx) y (p.symm.subset hy) z (p.symm.subset hz)⟩

theorem Fam.sublist {step : Int} {fp : Nat} {F G : List MTR} (h : Fam step fp F) (p : G.Sublist F) : Fam step fp G :=
  ⟨fun x hx => h.wf x (p.subset hx),
   h.rel.sublist p,
   fun x hx y hy z hz => h.far2 x (p.subset hx) y (p.subset hy) z (p.subset hz)⟩

/-- the inner loop, in closed form, for a source range that is strictly ordered against everything accumulated -/
theorem absorb_eq (step : Int) (hs : 0 ≤ step) (src : MTR) (hsrc : src.s ≤ src.e) (acc : List MTR)
    (h : ∀ m ∈ acc, m.fp = src.fp ∧ m.s ≤ m.e ∧ Rel step m src) :
    absorb step src acc = (acc.map (gmap step src), acc.any fun m => near m src step) := by
  induction acc with
  | nil => simp [absorb]
  | cons m rest ih =>
    have hm := h m (List.mem_cons_self ..)
    have ih' := ih (fun x hx => h x (List.mem_cons_of_mem _ hx))
    have hst : (m.s < src.s ∧ m.e < src.e) ∨ (src.s < m.s ∧ src.e < m.e) := by
      have := hm.2.2; unfold Rel at this; omega
    have ho := overlaps_stair m src step hs hm.1 hm.2.1 hsrc hst
    simp only [absorb, ih', ho, List.map_cons, List.any_cons]
    cases hn : near m src step with
    | true => simp [gmap, hn]
    | false => simp [gmap, hn]

/-- facts about the source range and the rest, read off the family invariant -/
theorem fam_split {step : Int} {fp : Nat} {acc rest : List MTR} {src : MTR} (h : Fam step fp (acc ++ src :: rest)) :
    (∀ a ∈ acc, Rel step a src) ∧ (∀ b ∈ rest, Rel step src b) ∧ (∀ a ∈ acc, ∀ b ∈ rest, Rel step a b) ∧
    acc.Pairwise (Rel step) ∧ rest.Pairwise (Rel step) := by
  have := h.rel
  rw [List.pairwise_append, List.pairwise_cons] at this
  obtain ⟨h1, ⟨h2, h3⟩, h4⟩ := this
  exact ⟨fun a ha => h4 a ha src (List.mem_cons_self ..), h2, fun a ha b hb => h4 a ha b (List.mem_cons_of_mem _ hb), h1, h3⟩

/-- one source range through the inner loop keeps the family invariant (whether or not anything merged: when nothing
did, this is the family without the source) -/
theorem fam_step {step : Int} (hs : 1 ≤ step) {fp : Nat} {acc rest : List MTR} {src : MTR}
    (h : Fam step fp (acc ++ src :: rest)) : Fam step fp (acc.map (gmap step src) ++ rest) := by
  obtain ⟨ras, rsb, rab, pacc, prest⟩ := fam_split h
  have msrc : src ∈ acc ++ src :: rest := by simp
  have macc : ∀ a ∈ acc, a ∈ acc ++ src :: rest := fun a ha => List.mem_append.mpr (Or.inl ha)
  have mrest : ∀ b ∈ rest, b ∈ acc ++ src :: rest := fun b hb => List.mem_append.mpr (Or.inr (List.mem_cons_of_mem _ hb))
  have wsrc := h.wf src msrc
  -- every new range comes from one old range, by position
  have origin : ∀ x' ∈ acc.map (gmap step src) ++ rest,
      ∃ x, ((x ∈ acc ∧ x' = gmap step src x) ∨ (x ∈ rest ∧ x' = x)) := by
    intro x' hx'
    rcases List.mem_append.mp hx' with hm | hr
    · obtain ⟨a, ha, rfl⟩ := List.mem_map.mp hm
      exact ⟨a, Or.inl ⟨ha, rfl⟩⟩
    · exact ⟨x', Or.inr ⟨hr, rfl⟩⟩
  have ofam : ∀ {x' x : MTR}, ((x ∈ acc ∧ x' = gmap step src x) ∨ (x ∈ rest ∧ x' = x)) →
      x ∈ acc ++ src :: rest ∧ Became step src x x' ∧ Rel step x src := by
    intro x' x hx
    rcases hx with ⟨ha, e⟩ | ⟨hb, e⟩
    · exact ⟨macc x ha, e ▸ became_gmap step src x, ras x ha⟩
    · exact ⟨mrest x hb, e ▸ became_self step src x, rel_symm (rsb x hb)⟩
  have same : ∀ {x' y' x : MTR}, ((x ∈ acc ∧ x' = gmap step src x) ∨ (x ∈ rest ∧ x' = x)) →
      ((x ∈ acc ∧ y' = gmap step src x) ∨ (x ∈ rest ∧ y' = x)) → x' = y' := by
    intro x' y' x hx hy
    rcases hx with ⟨ha, e⟩ | ⟨hb, e⟩ <;> rcases hy with ⟨ha', e'⟩ | ⟨hb', e'⟩
    · rw [e, e']
    · exact absurd (rab x ha x hb') (rel_irrefl step x)
    · exact absurd (rab x ha' x hb) (rel_irrefl step x)
    · rw [e, e']
  refine ⟨?_, ?_, ?_⟩
  · -- well-formed
    intro x' hx'
    obtain ⟨x, hx⟩ := origin x' hx'
    obtain ⟨hm, hb, _⟩ := ofam hx
    have wx := h.wf x hm
    rcases hx with ⟨ha, e⟩ | ⟨hb', e⟩
    · rw [e]; unfold gmap; split
      · exact ⟨wx.1, by simp only; omega⟩
      · exact wx
    · rw [e]; exact wx
  · -- pairwise relation
    rw [List.pairwise_append, List.pairwise_map]
    refine ⟨?_, prest, ?_⟩
    · refine pacc.imp_of_mem ?_
      intro a b ha hb rab'
      exact rel_core step hs src a b _ _ (h.wf a (macc a ha)).2 (h.wf b (macc b hb)).2 wsrc.2 rab' (ras a ha) (ras b hb)
        (became_gmap step src a) (became_gmap step src b)
        (h.far2 a (macc a ha) b (macc b hb) src msrc) (h.far2 a (macc a ha) src msrc b (macc b hb))
        (h.far2 b (macc b hb) a (macc a ha) src msrc) (h.far2 b (macc b hb) src msrc a (macc a ha))
        (h.far2 src msrc a (macc a ha) b (macc b hb)) (h.far2 src msrc b (macc b hb) a (macc a ha))
    · intro a' ha' b hb
      obtain ⟨a, ha, rfl⟩ := List.mem_map.mp ha'
      exact rel_core step hs src a b _ _ (h.wf a (macc a ha)).2 (h.wf b (mrest b hb)).2 wsrc.2 (rab a ha b hb) (ras a ha) (rel_symm (rsb b hb))
        (became_gmap step src a) (became_self step src b)
        (h.far2 a (macc a ha) b (mrest b hb) src msrc) (h.far2 a (macc a ha) src msrc b (mrest b hb))
        (h.far2 b (mrest b hb) a (macc a ha) src msrc) (h.far2 b (mrest b hb) src msrc a (macc a ha))
        (h.far2 src msrc a (macc a ha) b (mrest b hb)) (h.far2 src msrc b (mrest b hb) a (macc a ha))
  · -- nothing strictly between two ranges that are near
    intro x' hx' y' hy' z' hz' hxy hyz
    obtain ⟨x, ox⟩ := origin x' hx'
    obtain ⟨y, oy⟩ := origin y' hy'
    obtain ⟨z, oz⟩ := origin z' hz'
    obtain ⟨mx, bx, rx⟩ := ofam ox
    obtain ⟨my, by_, ry⟩ := ofam oy
    obtain ⟨mz, bz, rz⟩ := ofam oz
    have nxy : x ≠ y := by
      intro e; subst e
      have := same ox oy
      rw [this] at hxy; omega
    have nyz : y ≠ z := by
      intro e; subst e
      have := same oy oz
      rw [this] at hyz; omega
    have rxy := rel_of_mem h.rel mx my nxy
    have ryz := rel_of_mem h.rel my mz nyz
    have oxy := order_kept step src x y x' y' rxy bx by_ (h.far2 src msrc y my x mx) hxy
    have oyz := order_kept step src y z y' z' ryz by_ bz (h.far2 src msrc z mz y my) hyz
    exact far2_core step src x y z x' y' z' oxy oyz rx ry rz bx bz (h.far2 x mx y my z mz) (h.far2 x mx y my src msrc) (h.far2 src msrc y my z mz)

/-- seconds covered by some range of the list -/
def covered (F : List MTR) (t : Int) : Prop := ∃ x ∈ F, x.s ≤ t ∧ t ≤ x.e

/-- when something merged, the source range is gone and nothing else changed in what is covered -/
theorem cov_step {step : Int} (hs : 1 ≤ step) {fp : Nat} {acc rest : List MTR} {src : MTR}
    (h : Fam step fp (acc ++ src :: rest)) (fired : (acc.any fun m => near m src step) = true) (t : Int) :
    covered (acc.map (gmap step src) ++ rest) t ↔ covered (acc ++ src :: rest) t := by
  obtain ⟨ras, rsb, rab, pacc, prest⟩ := fam_split h
  constructor
  · rintro ⟨x', hx', h1, h2⟩
    rcases List.mem_append.mp hx' with hm | hr
    · obtain ⟨a, ha, rfl⟩ := List.mem_map.mp hm
      have ra := ras a ha
      unfold gmap at h1 h2
      cases hn : near a src step with
      | false =>
        simp only [hn] at h1 h2
        exact ⟨a, List.mem_append.mpr (Or.inl ha), h1, h2⟩
      | true =>
        simp only [hn, if_true] at h1 h2
        simp only [near, decide_eq_true_eq] at hn
        unfold Rel at ra
        by_cases hin : a.s ≤ t ∧ t ≤ a.e
        · exact ⟨a, List.mem_append.mpr (Or.inl ha), hin.1, hin.2⟩
        · exact ⟨src, by simp, by omega, by omega⟩
    · exact ⟨x', List.mem_append.mpr (Or.inr (List.mem_cons_of_mem _ hr)), h1, h2⟩
  · rintro ⟨x, hx, h1, h2⟩
    rcases List.mem_append.mp hx with ha | hsr
    · refine ⟨gmap step src x, List.mem_append.mpr (Or.inl (List.mem_map.mpr ⟨x, ha, rfl⟩)), ?_, ?_⟩ <;>
        (unfold gmap; split <;> (try simp only) <;> omega)
    · rcases List.mem_cons.mp hsr with rfl | hr
      · obtain ⟨a, ha, hn⟩ := List.any_eq_true.mp fired
        refine ⟨gmap step x a, List.mem_append.mpr (Or.inl (List.mem_map.mpr ⟨a, ha, rfl⟩)), ?_, ?_⟩ <;>
          (unfold gmap; simp only [hn, if_true]; omega)
      · exact ⟨x, List.mem_append.mpr (Or.inr hr), h1, h2⟩

/-- a pass in which nothing merges: no source range is near anything that came before it -/
def Quiet (step : Int) : List MTR → List MTR → Prop
  | _, [] => True
  | acc, src :: rest => (∀ a ∈ acc, near a src step = false) ∧ Quiet step (acc ++ [src]) rest

theorem mergePass_spec (step : Int) (hs : 1 ≤ step) (fp : Nat) (l : List MTR) :
    ∀ acc : List MTR, Fam step fp (acc ++ l) →
      Fam step fp (mergePass step l acc).1 ∧
      (∀ t, covered (mergePass step l acc).1 t ↔ covered (acc ++ l) t) ∧
      (mergePass step l acc).1.length ≤ (acc ++ l).length ∧
      ((mergePass step l acc).2 = true → (mergePass step l acc).1.length < (acc ++ l).length) ∧
      ((mergePass step l acc).2 = false → (mergePass step l acc).1 = acc ++ l) ∧
      ((mergePass step l acc).2 = false ↔ Quiet step acc l) := by
  induction l with
  | nil =>
    intro acc h
    have h' : Fam step fp acc := by simpa using h
    simp [mergePass, Quiet, h']
  | cons src rest ih =>
    intro acc h
    obtain ⟨ras, rsb, rab, pacc, prest⟩ := fam_split h
    have msrc : src ∈ acc ++ src :: rest := by simp
    have wsrc := h.wf src msrc
    have habs := absorb_eq step (by omega) src wsrc.2 acc (fun m hm => by
      have wm := h.wf m (List.mem_append.mpr (Or.inl hm))
      exact ⟨wm.1.trans wsrc.1.symm, wm.2, ras m hm⟩)
    cases hf : (acc.any fun m => near m src step) with
    | true =>
      have hfam := fam_step hs h
      obtain ⟨i1, i2, i3, i4, i5, i6⟩ := ih (acc.map (gmap step src)) hfam
      have e : mergePass step (src :: rest) acc = ((mergePass step rest (acc.map (gmap step src))).1, true) := by
        simp [mergePass, habs, hf]
      rw [e]
      refine ⟨i1, ?_, ?_, ?_, by simp, ?_⟩
      · intro t; rw [i2 t]; exact cov_step hs h hf t
      · simp only [List.length_append, List.length_map, List.length_cons] at *; omega
      · intro _; simp only [List.length_append, List.length_map, List.length_cons] at *; omega
      · simp only [Bool.true_eq_false, false_iff, Quiet]
        intro hq
        obtain ⟨a, ha, hn⟩ := List.any_eq_true.mp hf
        rw [hq.1 a ha] at hn; cases hn
    | false =>
      have hfam : Fam step fp ((acc ++ [src]) ++ rest) := by simpa using h
      obtain ⟨i1, i2, i3, i4, i5, i6⟩ := ih (acc ++ [src]) hfam
      have e : mergePass step (src :: rest) acc = mergePass step rest (acc ++ [src]) := by
        simp [mergePass, habs, hf]
      have ea : (acc ++ [src]) ++ rest = acc ++ src :: rest := by simp
      rw [e]
      rw [ea] at i2 i3 i4 i5
      refine ⟨i1, i2, i3, i4, i5, ?_⟩
      rw [i6]
      simp only [Quiet]
      constructor
      · intro hq
        refine ⟨?_, hq⟩
        intro a ha
        cases hn : near a src step with
        | false => rfl
        | true =>
          have : (acc.any fun m => near m src step) = true := List.any_eq_true.mpr ⟨a, ha, hn⟩
          rw [hf] at this; cases this
      · intro hq; exact hq.2

/-- no two ranges of the list are near: a fixpoint of MergeRanges -/
def NoNear (step : Int) (l : List MTR) : Prop := l.Pairwise fun a b => near a b step = false

theorem quiet_iff (step : Int) (l : List MTR) : ∀ acc, Quiet step acc l ↔ ((∀ a ∈ acc, ∀ b ∈ l, near a b step = false) ∧ NoNear step l) := by
  induction l with
  | nil => intro acc; simp [Quiet, NoNear]
  | cons src rest ih =>
    intro acc
    simp only [Quiet, ih, NoNear, List.pairwise_cons, List.mem_append, List.mem_cons, List.not_mem_nil, or_false]
    constructor
    · rintro ⟨h1, h2, h3⟩
      refine ⟨?_, ?_, h3⟩
      · intro a ha b hb
        rcases hb with rfl | hb
        · exact h1 a ha
        · exact h2 a (Or.inl ha) b hb
      · intro b hb; exact h2 src (Or.inr rfl) b hb
    · rintro ⟨h1, h2, h3⟩
      refine ⟨fun a ha => h1 a ha src (Or.inl rfl), ?_, h3⟩
      intro a ha b hb
      rcases ha with ha | rfl
      · exact h1 a ha b (Or.inr hb)
      · exact h2 b hb

theorem near_comm (a b : MTR) (step : Int) : near a b step = near b a step := by
  unfold near; congr 1; exact propext ⟨fun h => ⟨h.2, h.1⟩, fun h => ⟨h.2, h.1⟩⟩

theorem insertSorted_perm (r : MTR) (l : List MTR) : (insertSorted r l).Perm (r :: l) := by
  induction l with
  | nil => simp [insertSorted]
  | cons x rest ih =>
    simp only [insertSorted]
    split
    · exact List.Perm.refl _
    · exact (List.Perm.cons x ih).trans (List.Perm.swap r x rest)

theorem sortByStart_perm (l : List MTR) : (sortByStart l).Perm l := by
  induction l with
  | nil => simp [sortByStart]
  | cons x rest ih =>
    have : sortByStart (x :: rest) = insertSorted x (sortByStart rest) := rfl
    rw [this]
    exact (insertSorted_perm x _).trans (List.Perm.cons x ih)

theorem insertSorted_sorted (r : MTR) (l : List MTR) (h : l.Pairwise fun a b => a.s ≤ b.s) :
    (insertSorted r l).Pairwise fun a b => a.s ≤ b.s := by
  induction l with
  | nil => simp [insertSorted]
  | cons x rest ih =>
    simp only [insertSorted]
    rw [List.pairwise_cons] at h
    split
    · rename_i hle
      rw [List.pairwise_cons, List.pairwise_cons]
      refine ⟨?_, h⟩
      intro a ha
      rcases List.mem_cons.mp ha with rfl | ha'
      · exact hle
      · exact Int.le_trans hle (h.1 a ha')
    · rename_i hnle
      rw [List.pairwise_cons]
      refine ⟨?_, ih h.2⟩
      intro a ha
      have := (insertSorted_perm r rest).subset ha
      rcases List.mem_cons.mp this with rfl | ha'
      · omega
      · exact h.1 a ha'

theorem sortByStart_sorted (l : List MTR) : (sortByStart l).Pairwise fun a b => a.s ≤ b.s := by
  induction l with
  | nil => simp [sortByStart]
  | cons x rest ih =>
    have : sortByStart (x :: rest) = insertSorted x (sortByStart rest) := rfl
    rw [this]
    exact insertSorted_sorted x _ ih

theorem covered_perm {F G : List MTR} (p : F.Perm G) (t : Int) : covered F t ↔ covered G t :=
  ⟨fun ⟨x, hx, h⟩ => ⟨x, p.subset hx, h⟩, fun ⟨x, hx, h⟩ => ⟨x, p.symm.subset hx, h⟩⟩

theorem NoNear.perm {step : Int} {F G : List MTR} (h : NoNear step F) (p : F.Perm G) : NoNear step G :=
  List.Pairwise.perm h p (fun {x y} hxy => by rw [near_comm]; exact hxy)

/-- `y` is a fixpoint reached from `l`: family invariant kept, nothing near anything, same seconds covered -/
structure Good (step : Int) (fp : Nat) (l y : List MTR) : Prop where
  fam : Fam step fp y
  fix : NoNear step y
  cov : ∀ t, covered y t ↔ covered l t
  len : y.length ≤ l.length

theorem Good.refl {step : Int} {fp : Nat} {l : List MTR} (h : Fam step fp l) (hn : NoNear step l) : Good step fp l l :=
  ⟨h, hn, fun _ => Iff.rfl, Nat.le_refl _⟩

theorem Good.trans {step : Int} {fp : Nat} {l y z : List MTR} (h1 : Good step fp l y) (h2 : Good step fp y z) : Good step fp l z :=
  ⟨h2.fam, h2.fix, fun t => (h2.cov t).trans (h1.cov t), Nat.le_trans h2.len h1.len⟩

theorem Good.sort {step : Int} {fp : Nat} {l y : List MTR} (h : Good step fp l y) : Good step fp l (sortByStart y) :=
  have p := sortByStart_perm y
  ⟨h.fam.perm p.symm, h.fix.perm p.symm, fun t => (covered_perm p t).trans (h.cov t), by rw [p.length_eq]; exact h.len⟩

/-- a pass over a fixpoint changes nothing -/
theorem pass_fix (step : Int) (hs : 1 ≤ step) (fp : Nat) (l : List MTR) (h : Fam step fp l) :
    (mergePass step l []).2 = false ↔ NoNear step l := by
  obtain ⟨_, _, _, _, _, i6⟩ := mergePass_spec step hs fp l [] (by simpa using h)
  rw [i6, quiet_iff]; simp

def RecSpec (step : Int) (fp : Nat) (f : Nat) : Prop :=
  ∀ l, Fam step fp l → l.length ≤ f → Good step fp l (mergeRec step f l).1

theorem loop_of_rec (step : Int) (fp : Nat) (f : Nat) (hrec : RecSpec step fp f) :
    ∀ k l, Fam step fp l → l.length ≤ f → (0 < k ∨ NoNear step l) → Good step fp l (mergeLoop step f k l) := by
  intro k
  induction k with
  | zero =>
    intro l h hl hk
    rcases hk with hk | hk
    · omega
    · rw [mergeLoop]; exact Good.refl h hk
  | succ k ih =>
    intro l h hl _
    have g := hrec l h hl
    rw [mergeLoop]
    simp only
    split
    · exact g.trans (ih _ g.fam (Nat.le_trans g.len hl) (Or.inr g.fix))
    · exact g

theorem rec_spec (step : Int) (hs : 1 ≤ step) (fp : Nat) : ∀ f, RecSpec step fp f := by
  intro f
  induction f with
  | zero =>
    intro l h hl
    have : l = [] := List.length_eq_zero_iff.mp (Nat.le_zero.mp hl)
    subst this
    rw [mergeRec]
    exact Good.refl h (by simp [NoNear])
  | succ f ih =>
    intro l h hl
    have spec := mergePass_spec step hs fp l [] (by simpa using h)
    have pf := pass_fix step hs fp l h
    rw [mergeRec]
    rcases hp : mergePass step l [] with ⟨out, merged⟩
    rw [hp] at spec pf
    simp only [List.nil_append] at spec pf ⊢
    obtain ⟨i1, i2, i3, i4, i5, i6⟩ := spec
    cases merged with
    | true =>
      have hlen : out.length ≤ f := by have := i4 rfl; omega
      have gl := loop_of_rec step fp f ih (out.length + 1) out i1 hlen (Or.inl (by omega))
      have g : Good step fp l (mergeLoop step f (out.length + 1) out) :=
        ⟨gl.fam, gl.fix, fun t => (gl.cov t).trans (i2 t), Nat.le_trans gl.len i3⟩
      simpa using g.sort
    | false =>
      simpa using Good.refl h (pf.mp rfl)

/-- the canonical list of presence ranges of one series: sorted by start, every two more than a step apart -/
structure Canon (step : Int) (fp : Nat) (R : List MTR) : Prop where
  wf : ∀ x ∈ R, x.fp = fp ∧ x.s ≤ x.e
  sorted : R.Pairwise fun a b => a.s ≤ b.s
  apart : NoNear step R

theorem Canon.tail {step : Int} {fp : Nat} {a : MTR} {A : List MTR} (h : Canon step fp (a :: A)) : Canon step fp A :=
  ⟨fun x hx => h.wf x (List.mem_cons_of_mem _ hx), (List.pairwise_cons.mp h.sorted).2, (List.pairwise_cons.mp h.apart).2⟩

/-- everything behind the head starts more than a step after the head ends -/
theorem Canon.head_before {step : Int} (hs : 0 ≤ step) {fp : Nat} {a : MTR} {A : List MTR} (h : Canon step fp (a :: A)) :
    ∀ x ∈ A, a.e + step < x.s := by
  intro x hx
  have h1 := (List.pairwise_cons.mp h.sorted).1 x hx
  have h2 := (List.pairwise_cons.mp h.apart).1 x hx
  have wx := (h.wf x (List.mem_cons_of_mem _ hx)).2
  simp only [near, decide_eq_false_iff_not] at h2
  omega

theorem canon_head_start {step : Int} (hs : 0 ≤ step) {fp : Nat} {a b : MTR} {A B : List MTR}
    (h1 : Canon step fp (a :: A)) (h2 : Canon step fp (b :: B))
    (hc : ∀ t, covered (a :: A) t → covered (b :: B) t) : b.s ≤ a.s := by
  have wa := (h1.wf a (List.mem_cons_self ..)).2
  obtain ⟨y, hy, hy1, hy2⟩ := hc a.s ⟨a, List.mem_cons_self .., Int.le_refl _, wa⟩
  rcases List.mem_cons.mp hy with rfl | hy'
  · exact hy1
  · have := (List.pairwise_cons.mp h2.sorted).1 y hy'
    omega

theorem canon_head_end {step : Int} (hs : 1 ≤ step) {fp : Nat} {a b : MTR} {A B : List MTR}
    (h1 : Canon step fp (a :: A)) (h2 : Canon step fp (b :: B)) (hst : a.s = b.s)
    (hc : ∀ t, covered (b :: B) t → covered (a :: A) t) : b.e ≤ a.e := by
  have wa := (h1.wf a (List.mem_cons_self ..)).2
  have wb := (h2.wf b (List.mem_cons_self ..)).2
  by_cases hlt : a.e < b.e
  · obtain ⟨x, hx, hx1, hx2⟩ := hc (a.e + 1) ⟨b, List.mem_cons_self .., by omega, by omega⟩
    rcases List.mem_cons.mp hx with rfl | hx'
    · omega
    · have := h1.head_before (by omega) x hx'
      omega
  · omega

/-- a set of seconds has at most one canonical list of ranges -/
theorem canon_unique (step : Int) (hs : 1 ≤ step) (fp : Nat) :
    ∀ R₁ R₂ : List MTR, Canon step fp R₁ → Canon step fp R₂ → (∀ t, covered R₁ t ↔ covered R₂ t) → R₁ = R₂ := by
  intro R₁
  induction R₁ with
  | nil =>
    intro R₂ _ h2 hc
    cases R₂ with
    | nil => rfl
    | cons b B =>
      have wb := (h2.wf b (List.mem_cons_self ..)).2
      obtain ⟨x, hx, _⟩ := (hc b.s).mpr ⟨b, List.mem_cons_self .., Int.le_refl _, wb⟩
      simp at hx
  | cons a A ih =>
    intro R₂ h1 h2 hc
    cases R₂ with
    | nil =>
      have wa := (h1.wf a (List.mem_cons_self ..)).2
      obtain ⟨x, hx, _⟩ := (hc a.s).mp ⟨a, List.mem_cons_self .., Int.le_refl _, wa⟩
      simp at hx
    | cons b B =>
      have wa := h1.wf a (List.mem_cons_self ..)
      have wb := h2.wf b (List.mem_cons_self ..)
      have s1 := canon_head_start (by omega) h1 h2 (fun t => (hc t).mp)
      have s2 := canon_head_start (by omega) h2 h1 (fun t => (hc t).mpr)
      have hst : a.s = b.s := by omega
      have e1 := canon_head_end hs h1 h2 hst (fun t => (hc t).mpr)
      have e2 := canon_head_end hs h2 h1 hst.symm (fun t => (hc t).mp)
      have hab : a = b := by
        cases a; cases b; simp only [MTR.mk.injEq] at *
        exact ⟨wa.1.trans wb.1.symm, hst, by omega⟩
      subst hab
      have ha := h1.head_before (by omega)
      have hb := h2.head_before (by omega)
      have htail : ∀ t, covered A t ↔ covered B t := by
        intro t
        constructor
        · rintro ⟨x, hx, hx1, hx2⟩
          obtain ⟨y, hy, hy1, hy2⟩ := (hc t).mp ⟨x, List.mem_cons_of_mem _ hx, hx1, hx2⟩
          rcases List.mem_cons.mp hy with rfl | hy'
          · have := ha x hx; omega
          · exact ⟨y, hy', hy1, hy2⟩
        · rintro ⟨x, hx, hx1, hx2⟩
          obtain ⟨y, hy, hy1, hy2⟩ := (hc t).mpr ⟨x, List.mem_cons_of_mem _ hx, hx1, hx2⟩
          rcases List.mem_cons.mp hy with rfl | hy'
          · have := hb x hx; omega
          · exact ⟨y, hy', hy1, hy2⟩
      rw [ih B h1.tail h2.tail htail]

/-- **MergeRanges reaches the canonical list.** For every family of ranges of one series that keeps the invariant
`Fam` (what the slices of a range query hand over: see `fam_of_runs`), in whatever order the ranges come: the result is
sorted, no two ranges of it are within a step of each other, and it covers exactly the seconds the input covered. -/
theorem mergeSeries_canon (step : Int) (hs : 1 ≤ step) (fp : Nat) (l : List MTR) (h : Fam step fp l) :
    Canon step fp (mergeSeries step l) ∧ ∀ t, covered (mergeSeries step l) t ↔ covered l t := by
  have g := (rec_spec step hs fp (l.length + 1) l h (Nat.le_succ _)).sort
  unfold mergeSeries
  exact ⟨⟨g.fam.wf, sortByStart_sorted _, g.fix⟩, g.cov⟩

/-- **The result does not depend on the order in which the ranges arrive.** -/
theorem merge_order_independent (step : Int) (hs : 1 ≤ step) (fp : Nat) (l₁ l₂ : List MTR) (h : Fam step fp l₁)
    (p : l₁.Perm l₂) : mergeSeries step l₁ = mergeSeries step l₂ := by
  obtain ⟨c1, v1⟩ := mergeSeries_canon step hs fp l₁ h
  obtain ⟨c2, v2⟩ := mergeSeries_canon step hs fp l₂ (h.perm p)
  exact canon_unique step hs fp _ _ c1 c2 (fun t => (v1 t).trans ((covered_perm p t).trans (v2 t).symm))

/-- **Exactly the canonical ranges.** Whatever canonical list covers the same seconds as the input (the runs of the
unsliced evaluation, for one) is what MergeRanges returns. -/
theorem merge_is_canonical (step : Int) (hs : 1 ≤ step) (fp : Nat) (l R : List MTR) (h : Fam step fp l)
    (hR : Canon step fp R) (hc : ∀ t, covered R t ↔ covered l t) : mergeSeries step l = R := by
  obtain ⟨c1, v1⟩ := mergeSeries_canon step hs fp l h
  exact canon_unique step hs fp _ _ c1 hR (fun t => (v1 t).trans (hc t).symm)

/-! ## what the slices hand over is a family; the unsliced runs are canonical -/

/-- two instants on one grid are equal or at least a step apart -/
theorem grid_gap (o step a b : Int) (hs : 1 ≤ step) (ha : step ∣ (a - o)) (hb : step ∣ (b - o)) (hab : a ≤ b) :
    a = b ∨ a + step ≤ b := by
  have hd : step ∣ (b - a) := by
    have := Int.dvd_sub hb ha
    have e : b - o - (a - o) = b - a := by omega
    rwa [e] at this
  by_cases h0 : b - a = 0
  · left; omega
  · right
    have := Int.le_of_dvd (by omega) hd
    omega

/-- a range whose start and (end + 1s) lie on the grid from `o`, and that is at least one step long: what
`AppendSampleToRanges` + `ExpandRangesEnd` make of grid samples -/
def AlignedTo (o step : Int) (x : MTR) : Prop := step ∣ (x.s - o) ∧ step ∣ (x.e + 1 - o) ∧ x.s + step ≤ x.e + 1

def Disjoint (x y : MTR) : Prop := x.e < y.s ∨ y.e < x.s

theorem disj_of_mem {F : List MTR} (h : F.Pairwise Disjoint) {x y : MTR} (hx : x ∈ F) (hy : y ∈ F) (hne : x ≠ y) : Disjoint x y := by
  induction F with
  | nil => simp at hx
  | cons a F ih =>
    rw [List.pairwise_cons] at h
    rcases List.mem_cons.mp hx with rfl | hx' <;> rcases List.mem_cons.mp hy with rfl | hy'
    · exact absurd rfl hne
    · exact h.1 y hy'
    · have := h.1 x hx'; unfold Disjoint at *; omega
    · exact ih h.2 hx' hy'

/-- pairwise disjoint grid-aligned ranges of one series keep the family invariant -/
theorem fam_of_aligned (o step : Int) (hs : 1 ≤ step) (fp : Nat) (l : List MTR)
    (hfp : ∀ x ∈ l, x.fp = fp) (hal : ∀ x ∈ l, AlignedTo o step x) (hd : l.Pairwise Disjoint) : Fam step fp l := by
  have key : ∀ x ∈ l, ∀ y ∈ l, x.e < y.s → y.s = x.e + 1 ∨ x.e + step < y.s := by
    intro x hx y hy hlt
    have := grid_gap o step (x.e + 1) y.s hs (hal x hx).2.1 (hal y hy).1 (by omega)
    omega
  refine ⟨?_, ?_, ?_⟩
  · intro x hx
    have := (hal x hx).2.2
    exact ⟨hfp x hx, by omega⟩
  · refine hd.imp_of_mem ?_
    intro x y hx hy hxy
    have lx := (hal x hx).2.2
    have ly := (hal y hy).2.2
    unfold Disjoint at hxy
    unfold Rel
    rcases hxy with h | h
    · have := key x hx y hy h; omega
    · have := key y hy x hx h; omega
  · intro x hx y hy z hz hxy hyz
    have lx := (hal x hx).2.2
    have ly := (hal y hy).2.2
    have lz := (hal z hz).2.2
    have d1 := disj_of_mem hd hx hy (by intro e; subst e; omega)
    have d2 := disj_of_mem hd hy hz (by intro e; subst e; omega)
    unfold Disjoint at d1 d2
    have k2 := key y hy z hz (by omega)
    omega

/-- sample instants on the grid from `o`, strictly ascending -/
def OnGrid (o step : Int) (ts : List Int) : Prop := (∀ u ∈ ts, step ∣ (u - o)) ∧ ts.Pairwise (· < ·)

/-- runs collected so far (most recent first): first and last sample of each, at least two steps between runs -/
structure RunsInv (o step : Int) (acc : List (Int × Int)) : Prop where
  pts : ∀ p ∈ acc, p.1 ≤ p.2 ∧ step ∣ (p.1 - o) ∧ step ∣ (p.2 - o)
  sep : acc.Pairwise fun p q => q.2 + 2 * step ≤ p.1

/-- seconds covered by the runs once every run is stretched to the end of its last sample's step -/
def pcov (step : Int) (acc : List (Int × Int)) (t : Int) : Prop := ∃ p ∈ acc, p.1 ≤ t ∧ t ≤ p.2 + step - 1

theorem addRun_inv (o step : Int) (hs : 1 ≤ step) (acc : List (Int × Int)) (t : Int) (h : RunsInv o step acc)
    (ht : step ∣ (t - o)) (hlt : ∀ p ∈ acc, p.2 < t) :
    RunsInv o step (addRun step acc t) ∧
    (∀ p ∈ addRun step acc t, p.2 ≤ t) ∧
    (∀ t', pcov step (addRun step acc t) t' ↔ pcov step acc t' ∨ (t ≤ t' ∧ t' ≤ t + step - 1)) ∧
    (∀ p ∈ addRun step acc t, (p.1 = t ∨ ∃ q ∈ acc, p.1 = q.1) ∧ (p.2 = t ∨ ∃ q ∈ acc, p.2 = q.2)) := by
  cases acc with
  | nil =>
    simp only [addRun]
    refine ⟨⟨?_, by simp⟩, ?_, ?_, ?_⟩
    · intro p hp; simp at hp; subst hp; exact ⟨Int.le_refl _, ht, ht⟩
    · intro p hp; simp at hp; subst hp; exact Int.le_refl _
    · intro t'; simp [pcov]
    · intro p hp; simp at hp; subst hp; simp
  | cons hd rest =>
    obtain ⟨a, b⟩ := hd
    have hab := h.pts (a, b) (List.mem_cons_self ..)
    have hbt := hlt (a, b) (List.mem_cons_self ..)
    simp only at hab hbt
    have hsep := List.pairwise_cons.mp h.sep
    have gap := grid_gap o step b t hs hab.2.2 ht (by omega)
    simp only [addRun]
    split
    · rename_i hle
      have htb : t = b + step := by omega
      refine ⟨⟨?_, ?_⟩, ?_, ?_, ?_⟩
      · intro p hp
        rcases List.mem_cons.mp hp with rfl | hp'
        · exact ⟨by simp only; omega, hab.2.1, ht⟩
        · exact h.pts p (List.mem_cons_of_mem _ hp')
      · rw [List.pairwise_cons]
        exact ⟨fun q hq => hsep.1 q hq, hsep.2⟩
      · intro p hp
        rcases List.mem_cons.mp hp with rfl | hp'
        · exact Int.le_refl _
        · have := hlt p (List.mem_cons_of_mem _ hp'); omega
      · intro t'
        simp only [pcov, List.mem_cons, exists_eq_or_imp]
        constructor
        · rintro (⟨h1, h2⟩ | hr)
          · by_cases hc : t' ≤ b + step - 1
            · exact Or.inl (Or.inl ⟨h1, hc⟩)
            · exact Or.inr ⟨by omega, h2⟩
          · exact Or.inl (Or.inr hr)
        · rintro ((⟨h1, h2⟩ | hr) | ⟨h1, h2⟩)
          · exact Or.inl ⟨h1, by omega⟩
          · exact Or.inr hr
          · exact Or.inl ⟨by omega, h2⟩
      · intro p hp
        rcases List.mem_cons.mp hp with rfl | hp'
        · exact ⟨Or.inr ⟨(a, b), List.mem_cons_self .., rfl⟩, Or.inl rfl⟩
        · exact ⟨Or.inr ⟨p, List.mem_cons_of_mem _ hp', rfl⟩, Or.inr ⟨p, List.mem_cons_of_mem _ hp', rfl⟩⟩
    · rename_i hnle
      have hfar : b + step ≤ t := by omega
      have gap2 := grid_gap o step (b + step) t hs (by
        have : b + step - o = (b - o) + step := by omega
        rw [this]; exact Int.dvd_add hab.2.2 (Int.dvd_refl _)) ht hfar
      refine ⟨⟨?_, ?_⟩, ?_, ?_, ?_⟩
      · intro p hp
        rcases List.mem_cons.mp hp with rfl | hp'
        · exact ⟨Int.le_refl _, ht, ht⟩
        · exact h.pts p hp'
      · rw [List.pairwise_cons]
        refine ⟨?_, h.sep⟩
        intro q hq
        rcases List.mem_cons.mp hq with rfl | hq'
        · simp only; omega
        · have := hsep.1 q hq'
          simp only at this ⊢; omega
      · intro p hp
        rcases List.mem_cons.mp hp with rfl | hp'
        · exact Int.le_refl _
        · have := hlt p hp'; omega
      · intro t'
        simp only [pcov, List.mem_cons, exists_eq_or_imp]
        constructor
        · rintro (⟨h1, h2⟩ | hr)
          · exact Or.inr ⟨h1, h2⟩
          · exact Or.inl hr
        · rintro (hr | ⟨h1, h2⟩)
          · exact Or.inr hr
          · exact Or.inl ⟨h1, h2⟩
      · intro p hp
        rcases List.mem_cons.mp hp with rfl | hp'
        · exact ⟨Or.inl rfl, Or.inl rfl⟩
        · exact ⟨Or.inr ⟨p, hp', rfl⟩, Or.inr ⟨p, hp', rfl⟩⟩

theorem fold_inv (o step : Int) (hs : 1 ≤ step) (ts : List Int) :
    ∀ acc, RunsInv o step acc → OnGrid o step ts → (∀ p ∈ acc, ∀ u ∈ ts, p.2 < u) →
      RunsInv o step (ts.foldl (addRun step) acc) ∧
      (∀ t', pcov step (ts.foldl (addRun step) acc) t' ↔ pcov step acc t' ∨ ∃ u ∈ ts, u ≤ t' ∧ t' ≤ u + step - 1) ∧
      (∀ p ∈ ts.foldl (addRun step) acc, (p.1 ∈ ts ∨ ∃ q ∈ acc, p.1 = q.1) ∧ (p.2 ∈ ts ∨ ∃ q ∈ acc, p.2 = q.2)) := by
  induction ts with
  | nil =>
    intro acc h _ _
    simp only [List.foldl_nil]
    refine ⟨h, ?_, ?_⟩
    · intro t'; simp
    · intro p hp; exact ⟨Or.inr ⟨p, hp, rfl⟩, Or.inr ⟨p, hp, rfl⟩⟩
  | cons t ts ih =>
    intro acc h hg hlt
    have hgp := List.pairwise_cons.mp hg.2
    obtain ⟨a1, a2, a3, a4⟩ := addRun_inv o step hs acc t h (hg.1 t (List.mem_cons_self ..)) (fun p hp => hlt p hp t (List.mem_cons_self ..))
    have hg' : OnGrid o step ts := ⟨fun u hu => hg.1 u (List.mem_cons_of_mem _ hu), hgp.2⟩
    obtain ⟨b1, b2, b3⟩ := ih (addRun step acc t) a1 hg' (fun p hp u hu => by
      have := a2 p hp; have := hgp.1 u hu; omega)
    simp only [List.foldl_cons]
    refine ⟨b1, ?_, ?_⟩
    · intro t'
      rw [b2 t', a3 t']
      simp only [List.mem_cons, exists_eq_or_imp]
      constructor
      · rintro ((h1 | h2) | h3)
        · exact Or.inl h1
        · exact Or.inr (Or.inl h2)
        · exact Or.inr (Or.inr h3)
      · rintro (h1 | h2 | h3)
        · exact Or.inl (Or.inl h1)
        · exact Or.inl (Or.inr h2)
        · exact Or.inr h3
    · intro p hp
      obtain ⟨c1, c2⟩ := b3 p hp
      constructor
      · rcases c1 with c | ⟨q, hq, e⟩
        · exact Or.inl (List.mem_cons_of_mem _ c)
        · rcases (a4 q hq).1 with e' | ⟨q', hq', e'⟩
          · exact Or.inl (by rw [e, e']; exact List.mem_cons_self ..)
          · exact Or.inr ⟨q', hq', by rw [e, e']⟩
      · rcases c2 with c | ⟨q, hq, e⟩
        · exact Or.inl (List.mem_cons_of_mem _ c)
        · rcases (a4 q hq).2 with e' | ⟨q', hq', e'⟩
          · exact Or.inl (by rw [e, e']; exact List.mem_cons_self ..)
          · exact Or.inr ⟨q', hq', by rw [e, e']⟩

/-- the ranges one evaluation yields for the samples `ts` of one series: runs, stretched by `ExpandRangesEnd` -/
def outRuns (step : Int) (fp : Nat) (ts : List Int) : List MTR := expandEnds step ((runs step ts).map (mk fp))

def stretch (step : Int) (fp : Nat) (p : Int × Int) : MTR := ⟨fp, p.1, p.2 + (step - 1)⟩

theorem outRuns_eq (step : Int) (fp : Nat) (ts : List Int) :
    outRuns step fp ts = ((ts.foldl (addRun step) []).reverse).map (stretch step fp) := by
  simp [outRuns, expandEnds, runs, mk, stretch, List.map_map, Function.comp_def]

theorem base_inv_runs (o step : Int) : RunsInv o step [] := ⟨by simp, by simp⟩

/-- everything the fold gives for samples on a grid, read off `fold_inv` -/
theorem outRuns_facts (o step : Int) (hs : 1 ≤ step) (fp : Nat) (ts : List Int) (hg : OnGrid o step ts) :
    (∀ x ∈ outRuns step fp ts, x.fp = fp ∧ AlignedTo o step x ∧ x.s ∈ ts ∧ x.e - (step - 1) ∈ ts) ∧
    (outRuns step fp ts).Pairwise Disjoint ∧
    (∀ t, covered (outRuns step fp ts) t ↔ ∃ u ∈ ts, u ≤ t ∧ t ≤ u + step - 1) ∧
    Canon step fp (outRuns step fp ts) := by
  obtain ⟨i1, i2, i3⟩ := fold_inv o step hs ts [] (base_inv_runs o step) hg (by simp)
  have hmem : ∀ x, x ∈ outRuns step fp ts ↔ ∃ p ∈ ts.foldl (addRun step) [], x = stretch step fp p := by
    intro x
    rw [outRuns_eq]
    simp only [List.mem_map, List.mem_reverse]
    constructor
    · rintro ⟨p, hp, rfl⟩; exact ⟨p, hp, rfl⟩
    · rintro ⟨p, hp, rfl⟩; exact ⟨p, hp, rfl⟩
  have hal : ∀ x ∈ outRuns step fp ts, x.fp = fp ∧ AlignedTo o step x ∧ x.s ∈ ts ∧ x.e - (step - 1) ∈ ts := by
    intro x hx
    obtain ⟨p, hp, rfl⟩ := (hmem x).mp hx
    obtain ⟨h1, h2, h3⟩ := i1.pts p hp
    obtain ⟨e1, e2⟩ := i3 p hp
    refine ⟨rfl, ⟨h2, ?_, by simp only [stretch]; omega⟩, ?_, ?_⟩
    · simp only [stretch]
      have : p.2 + (step - 1) + 1 - o = (p.2 - o) + step := by omega
      rw [this]; exact Int.dvd_add h3 (Int.dvd_refl _)
    · rcases e1 with e | ⟨q, hq, _⟩
      · exact e
      · simp at hq
    · rcases e2 with e | ⟨q, hq, _⟩
      · simp only [stretch]
        have : p.2 + (step - 1) - (step - 1) = p.2 := by omega
        rw [this]; exact e
      · simp at hq
  -- the runs in ascending order
  have hrev : ((ts.foldl (addRun step) []).reverse).Pairwise fun q p => q.2 + 2 * step ≤ p.1 := by
    rw [List.pairwise_reverse]; exact i1.sep
  have hpts : ∀ p ∈ (ts.foldl (addRun step) []).reverse, p.1 ≤ p.2 := fun p hp => (i1.pts p (List.mem_reverse.mp hp)).1
  refine ⟨hal, ?_, ?_, ?_⟩
  · rw [outRuns_eq, List.pairwise_map]
    refine hrev.imp ?_
    intro q p h
    left; simp only [stretch]; omega
  · intro t
    constructor
    · rintro ⟨x, hx, h1, h2⟩
      obtain ⟨p, hp, rfl⟩ := (hmem x).mp hx
      have := (i2 t).mp ⟨p, hp, h1, by simp only [stretch] at h2; omega⟩
      rcases this with ⟨q, hq, _⟩ | h
      · simp at hq
      · exact h
    · intro h
      obtain ⟨p, hp, h1, h2⟩ := (i2 t).mpr (Or.inr h)
      exact ⟨stretch step fp p, (hmem _).mpr ⟨p, hp, rfl⟩, h1, by simp only [stretch]; omega⟩
  · refine ⟨fun x hx => ⟨(hal x hx).1, by have := (hal x hx).2.1.2.2; omega⟩, ?_, ?_⟩
    · rw [outRuns_eq, List.pairwise_map]
      refine hrev.imp_of_mem ?_
      intro q p hq hp h
      have := hpts q hq
      simp only [stretch]; omega
    · unfold NoNear
      rw [outRuns_eq, List.pairwise_map]
      refine hrev.imp_of_mem ?_
      intro q p hq hp h
      have := hpts q hq
      have hne : ¬ ((stretch step fp q).s ≤ (stretch step fp p).e + step ∧ (stretch step fp p).s ≤ (stretch step fp q).e + step) := by
        simp only [stretch]; omega
      simp only [near, decide_eq_false_iff_not]
      exact hne

theorem range_count (s e step : Int) (hs : 1 ≤ step) (k : Nat) :
    k < ((e - s) / step + 1).toNat ↔ s + (k : Int) * step ≤ e := by
  have hpos : 0 < step := by omega
  constructor
  · intro h
    have h1 : (k : Int) < (e - s) / step + 1 := by omega
    have h2 : (k : Int) ≤ (e - s) / step := by omega
    have := (Int.le_ediv_iff_mul_le hpos).mp h2
    omega
  · intro h
    have h2 : (k : Int) ≤ (e - s) / step := (Int.le_ediv_iff_mul_le hpos).mpr (by omega)
    omega

theorem gs_mem (present : Int → Bool) (s e step : Int) (hs : 1 ≤ step) (u : Int) :
    u ∈ gridSamples present s e step ↔ ∃ k : Nat, u = s + (k : Int) * step ∧ u ≤ e ∧ present u = true := by
  unfold gridSamples
  simp only [List.mem_filterMap, List.mem_range]
  constructor
  · rintro ⟨k, hk, h⟩
    split at h
    · rename_i hp
      simp only [Option.some.injEq] at h
      subst h
      exact ⟨k, rfl, (range_count s e step hs k).mp hk, hp⟩
    · cases h
  · rintro ⟨k, rfl, hle, hp⟩
    exact ⟨k, (range_count s e step hs k).mpr hle, by simp [hp]⟩

theorem gs_pairwise (present : Int → Bool) (s e step : Int) (hs : 1 ≤ step) :
    (gridSamples present s e step).Pairwise (· < ·) := by
  unfold gridSamples
  rw [List.pairwise_filterMap]
  refine (List.pairwise_lt_range).imp ?_
  intro a b hab u hu v hv
  dsimp only at hu hv
  split at hu
  · split at hv
    · simp only [Option.some.injEq] at hu hv
      subst hu; subst hv
      have h1 : (a : Int) + 1 ≤ (b : Int) := by omega
      have := Int.mul_le_mul_of_nonneg_right h1 (show (0 : Int) ≤ step by omega)
      have e : ((a : Int) + 1) * step = (a : Int) * step + step := by rw [Int.add_mul]; omega
      omega
    · cases hv
  · cases hu

theorem gs_ongrid (present : Int → Bool) (o s e step : Int) (hs : 1 ≤ step) (ho : step ∣ (s - o)) :
    OnGrid o step (gridSamples present s e step) := by
  refine ⟨?_, gs_pairwise present s e step hs⟩
  intro u hu
  obtain ⟨k, rfl, _, _⟩ := (gs_mem present s e step hs u).mp hu
  have : s + (k : Int) * step - o = (s - o) + (k : Int) * step := by omega
  rw [this]
  exact Int.dvd_add ho (Int.dvd_mul_left _ _)

theorem asc_of_pairwise (ts : List Int) : ∀ lo, ts.Pairwise (· < ·) → (∀ u ∈ ts, lo < u) → Asc lo ts := by
  induction ts with
  | nil => intro _ _ _; trivial
  | cons t ts ih =>
    intro lo hp hlo
    rw [List.pairwise_cons] at hp
    exact ⟨hlo t (List.mem_cons_self ..), ih t hp.2 hp.1⟩

/-- what one slice answers for one series is the stretched runs of its own grid samples -/
theorem sliceRanges_eq (step : Int) (hs : 1 ≤ step) (fp : Nat) (present : Int → Bool) (sl : TR) :
    sliceRanges step fp present sl = outRuns step fp (gridSamples present sl.s sl.e step) := by
  unfold sliceRanges outRuns
  have hasc : Asc (sl.s - 1) (gridSamples present sl.s sl.e step) := by
    refine asc_of_pairwise _ _ (gs_pairwise present sl.s sl.e step hs) ?_
    intro u hu
    obtain ⟨k, rfl, _, _⟩ := (gs_mem present sl.s sl.e step hs u).mp hu
    have : (0 : Int) ≤ (k : Int) * step := Int.mul_nonneg (by omega) (by omega)
    omega
  rw [append_is_runs step (by omega) fp (sl.s - 1) _ hasc]

/-- what the merge needs from a slice plan, relative to the grid that starts at `o` and ends at `end_` -/
structure SlicesOK (o step end_ : Int) (slices : List TR) : Prop where
  aligned : ∀ sl ∈ slices, step ∣ (sl.s - o)
  ordered : slices.Pairwise fun a b => a.e < b.s
  within : ∀ sl ∈ slices, o ≤ sl.s ∧ sl.e ≤ end_
  covers : ∀ k : Nat, o + (k : Int) * step ≤ end_ → ∃ sl ∈ slices, sl.s ≤ o + (k : Int) * step ∧ o + (k : Int) * step ≤ sl.e

/-- a non-negative multiple of the step, as a natural number of steps -/
theorem steps_of_dvd (step d : Int) (hs : 1 ≤ step) (hd : step ∣ d) (h0 : 0 ≤ d) : ∃ k : Nat, d = (k : Int) * step := by
  obtain ⟨c, hc⟩ := hd
  have hc0 : 0 ≤ c := by
    by_cases h : 0 ≤ c
    · exact h
    · exfalso
      have h1 : c ≤ -1 := by omega
      have := Int.mul_le_mul_of_nonneg_left h1 (show (0 : Int) ≤ step by omega)
      have e : step * -1 = -step := by omega
      omega
  exact ⟨c.toNat, by rw [hc, Int.toNat_of_nonneg hc0, Int.mul_comm]⟩

/-- **Slicing is invisible.** For every grid (origin `o`, step ≥ 1s, end), every presence pattern of a series, every
slice plan that tiles the grid (`SlicesOK`) and every order in which the slice answers arrive: folding each answer into
ranges, stretching the ends and merging gives exactly the ranges of ONE evaluation over the whole grid. -/
theorem sliced_eq_unsliced (o step end_ : Int) (hs : 1 ≤ step) (fp : Nat) (present : Int → Bool)
    (slices arrival : List TR) (ok : SlicesOK o step end_ slices) (hp : arrival.Perm slices) :
    mergeSeries step (arrival.flatMap (sliceRanges step fp present)) = outRuns step fp (gridSamples present o end_ step) := by
  have hf : ∀ sl, sliceRanges step fp present sl = outRuns step fp (gridSamples present sl.s sl.e step) :=
    fun sl => sliceRanges_eq step hs fp present sl
  have facts : ∀ sl ∈ slices, _ := fun sl hsl =>
    outRuns_facts o step hs fp (gridSamples present sl.s sl.e step) (gs_ongrid present o sl.s sl.e step hs (ok.aligned sl hsl))
  have whole := outRuns_facts o step hs fp (gridSamples present o end_ step)
    (gs_ongrid present o o end_ step hs (by simp))
  -- every range of every slice answer
  have hmem : ∀ x ∈ slices.flatMap (sliceRanges step fp present), ∃ sl ∈ slices, x ∈ outRuns step fp (gridSamples present sl.s sl.e step) := by
    intro x hx
    obtain ⟨sl, hsl, hx'⟩ := List.mem_flatMap.mp hx
    exact ⟨sl, hsl, by rw [← hf sl]; exact hx'⟩
  have hfam : Fam step fp (slices.flatMap (sliceRanges step fp present)) := by
    refine fam_of_aligned o step hs fp _ ?_ ?_ ?_
    · intro x hx
      obtain ⟨sl, hsl, hx'⟩ := hmem x hx
      exact ((facts sl hsl).1 x hx').1
    · intro x hx
      obtain ⟨sl, hsl, hx'⟩ := hmem x hx
      exact ((facts sl hsl).1 x hx').2.1
    · rw [List.pairwise_flatMap]
      refine ⟨?_, ?_⟩
      · intro sl hsl; rw [hf sl]; exact (facts sl hsl).2.1
      · refine ok.ordered.imp_of_mem ?_
        intro a b ha hb hab x hx y hy
        rw [hf a] at hx; rw [hf b] at hy
        obtain ⟨_, ax, _, xe⟩ := (facts a ha).1 x hx
        obtain ⟨_, ay, ys, _⟩ := (facts b hb).1 y hy
        obtain ⟨k1, e1, l1, _⟩ := (gs_mem present a.s a.e step hs _).mp xe
        obtain ⟨k2, e2, _, _⟩ := (gs_mem present b.s b.e step hs _).mp ys
        have hk2 : (0 : Int) ≤ (k2 : Int) * step := Int.mul_nonneg (by omega) (by omega)
        -- last sample of x ≤ a.e < b.s ≤ first sample of y, both on the grid
        have hlt : x.e + 1 ≤ y.s + step - 1 := by omega
        have gap := grid_gap o step (x.e + 1) (y.s) hs ax.2.1 ay.1
        left
        by_cases hle : x.e + 1 ≤ y.s
        · omega
        · exfalso
          -- x.e + 1 > y.s: then y.s ≤ x.e - (step - 1) + (step - 1), impossible as x.e - (step-1) < y.s and both on the grid
          have g2 := grid_gap o step (x.e - (step - 1)) y.s hs (by
            have : x.e - (step - 1) - o = (x.e + 1 - o) - step := by omega
            rw [this]; exact Int.dvd_sub ax.2.1 (Int.dvd_refl _)) ay.1 (by omega)
          omega
  have hperm := List.Perm.flatMap_right (sliceRanges step fp present) hp
  refine merge_is_canonical step hs fp _ _ (hfam.perm hperm.symm) whole.2.2.2 ?_
  intro t
  rw [whole.2.2.1 t, covered_perm hperm t]
  constructor
  · rintro ⟨u, hu, h1, h2⟩
    obtain ⟨k, rfl, hle, hpres⟩ := (gs_mem present o end_ step hs u).mp hu
    obtain ⟨sl, hsl, hs1, hs2⟩ := ok.covers k hle
    -- u is a grid point of that slice
    have hd : step ∣ (o + (k : Int) * step - sl.s) := by
      have : o + (k : Int) * step - sl.s = (k : Int) * step - (sl.s - o) := by omega
      rw [this]; exact Int.dvd_sub (Int.dvd_mul_left _ _) (ok.aligned sl hsl)
    obtain ⟨k', hk'⟩ := steps_of_dvd step _ hs hd (by omega)
    have hu' : o + (k : Int) * step ∈ gridSamples present sl.s sl.e step :=
      (gs_mem present sl.s sl.e step hs _).mpr ⟨k', by omega, hs2, hpres⟩
    obtain ⟨x, hx, hx1, hx2⟩ := ((facts sl hsl).2.2.1 t).mpr ⟨_, hu', h1, h2⟩
    exact ⟨x, List.mem_flatMap.mpr ⟨sl, hsl, by rw [hf sl]; exact hx⟩, hx1, hx2⟩
  · rintro ⟨x, hx, h1, h2⟩
    obtain ⟨sl, hsl, hx'⟩ := hmem x hx
    obtain ⟨u, hu, hu1, hu2⟩ := ((facts sl hsl).2.2.1 t).mp ⟨x, hx', h1, h2⟩
    obtain ⟨k', rfl, hle, hpres⟩ := (gs_mem present sl.s sl.e step hs u).mp hu
    obtain ⟨c, hc⟩ := steps_of_dvd step _ hs (ok.aligned sl hsl) (by have := (ok.within sl hsl).1; omega)
    refine ⟨sl.s + (k' : Int) * step, (gs_mem present o end_ step hs _).mpr ⟨c + k', ?_, ?_, hpres⟩, hu1, hu2⟩
    · have : ((c + k' : Nat) : Int) * step = (c : Int) * step + (k' : Int) * step := by
        rw [Int.natCast_add, Int.add_mul]
      omega
    · have := (ok.within sl hsl).2; omega

/-! ### the slice plan of `RangeQuery` tiles the grid -/

theorem chainFrom_starts (size : Int) (hsz : 0 ≤ size) (l : List TR) : ∀ k, ChainFrom size k l → ∀ x ∈ l, size ∣ (x.s - k) ∧ k ≤ x.s := by
  induction l with
  | nil => intro k _ x hx; simp at hx
  | cons a rest ih =>
    intro k h x hx
    cases rest with
    | nil =>
      simp only [ChainFrom] at h
      simp at hx; subst hx
      rw [h]; simp
    | cons b r =>
      obtain ⟨h1, h2, h3⟩ := h
      rcases List.mem_cons.mp hx with rfl | hx'
      · rw [h1]; simp
      · obtain ⟨d, hle⟩ := ih (k + size) h3 x hx'
        refine ⟨?_, by omega⟩
        have : x.s - k = (x.s - (k + size)) + size := by omega
        rw [this]; exact Int.dvd_add d (Int.dvd_refl _)

theorem trimEnds_mem (l : List TR) : ∀ x ∈ trimEnds l, ∃ y ∈ l, x.s = y.s ∧ x.e ≤ y.e := by
  induction l with
  | nil => intro x hx; simp [trimEnds] at hx
  | cons a rest ih =>
    intro x hx
    cases rest with
    | nil => simp [trimEnds] at hx; subst hx; exact ⟨x, by simp, rfl, Int.le_refl _⟩
    | cons b r =>
      simp only [trimEnds] at hx
      rcases List.mem_cons.mp hx with rfl | hx'
      · exact ⟨a, by simp, rfl, by simp only; omega⟩
      · obtain ⟨y, hy, h1, h2⟩ := ih x hx'
        exact ⟨y, List.mem_cons_of_mem _ hy, h1, h2⟩

theorem trimEnds_head (l : List TR) (d : TR) : ((trimEnds l).headD d).s = (l.headD d).s := by
  cases l with
  | nil => rfl
  | cons a rest =>
    cases rest with
    | nil => rfl
    | cons b r => rfl

theorem trimEnds_ordered (size : Int) (hsz : 1 ≤ size) (l : List TR) : ∀ k, ChainFrom size k l →
    (trimEnds l).Pairwise fun a b => a.e < b.s := by
  induction l with
  | nil => intro _ _; simp [trimEnds]
  | cons a rest ih =>
    intro k h
    cases rest with
    | nil => simp [trimEnds]
    | cons b r =>
      obtain ⟨h1, h2, h3⟩ := h
      simp only [trimEnds]
      rw [List.pairwise_cons]
      refine ⟨?_, ih (k + size) h3⟩
      intro z hz
      obtain ⟨y, hy, e1, _⟩ := trimEnds_mem _ z hz
      have := (chainFrom_starts size (by omega) _ (k + size) h3 y hy).2
      simp only; omega

theorem sliceLoop_le (size end_ : Int) (fuel : Nat) : ∀ k, ∀ x ∈ sliceLoop fuel k end_ size, x.e ≤ end_ := by
  induction fuel with
  | zero => intro k x hx; simp [sliceLoop] at hx
  | succ f ih =>
    intro k x hx
    simp only [sliceLoop] at hx
    split at hx
    · rcases List.mem_cons.mp hx with rfl | hx'
      · simp only; split <;> omega
      · exact ih _ x hx'
    · simp at hx

/-- contiguous slices from `head.s` to `last.e` leave no instant out -/
theorem contig_covers (l : List TR) (u : Int) : Contig l → (∀ d, (l.headD d).s ≤ u) → l ≠ [] →
    (∀ e, (l.getLast?).map (·.e) = some e → u ≤ e) → ∃ x ∈ l, x.s ≤ u ∧ u ≤ x.e := by
  induction l with
  | nil => intro _ _ h _; exact absurd rfl h
  | cons a rest ih =>
    intro hc hh _ hl
    cases rest with
    | nil =>
      refine ⟨a, by simp, hh a, hl a.e (by simp)⟩
    | cons b r =>
      obtain ⟨h1, h2⟩ := hc
      by_cases hle : u ≤ a.e
      · exact ⟨a, by simp, hh a, hle⟩
      · obtain ⟨x, hx, hx1, hx2⟩ := ih h2 (fun d => by simp only [List.headD_cons]; omega) (by simp)
          (fun e he => hl e (by simpa [List.getLast?_cons_cons] using he))
        exact ⟨x, List.mem_cons_of_mem _ hx, hx1, hx2⟩

/-- the multi-slice branch of `sliceRange`: the untrimmed slices form a chain from some start, none ends after `end` -/
theorem sliceRange_shape (start end_ res size : Int) (l : List TR) (h : sliceRange start end_ res size = some l)
    (hgap : ¬ end_ - start ≤ res) :
    ∃ U k0, l = trimEnds U ∧ ChainFrom size k0 U ∧ (∀ x ∈ U, x.e ≤ end_) ∧ 0 < size := by
  unfold sliceRange at h
  simp only [hgap, if_false] at h
  split at h
  · cases h
  · rename_i hsize
    simp only [Option.some.injEq] at h
    subst h
    have hle := sliceLoop_le size end_ ((end_ - roundTime start size) / size + 2).toNat (roundTime start size)
    by_cases hr : roundTime start size > start
    · simp only [hr, if_true]
      refine ⟨_, roundTime start size - size, rfl, ?_, ?_, by omega⟩
      · have hc := sliceLoop_chain size end_ ((end_ - roundTime start size) / size + 2).toNat (roundTime start size)
        cases hl : sliceLoop ((end_ - roundTime start size) / size + 2).toNat (roundTime start size) end_ size with
        | nil => simp [ChainFrom]
        | cons y r =>
          rw [hl] at hc
          have hlt : roundTime start size < end_ := by
            cases hf : ((end_ - roundTime start size) / size + 2).toNat with
            | zero => rw [hf] at hl; simp [sliceLoop] at hl
            | succ f =>
              rw [hf] at hl
              simp only [sliceLoop] at hl
              split at hl
              · assumption
              · cases hl
          refine ⟨rfl, ?_, ?_⟩
          · simp only []; split <;> omega
          · have : roundTime start size - size + size = roundTime start size := by omega
            rw [this]; exact hc
      · intro x hx
        rcases List.mem_append.mp hx with h1 | h2
        · simp at h1; subst h1; simp only; split <;> omega
        · exact hle x h2
    · simp only [hr, if_false, List.nil_append]
      exact ⟨_, roundTime start size, rfl, sliceLoop_chain size end_ _ _, hle, by omega⟩

theorem single_ok (start end_ step : Int) (hs : 1 ≤ step) : SlicesOK start step end_ [⟨start, end_⟩] := by
  refine ⟨?_, by simp, ?_, ?_⟩
  · intro sl hsl; simp at hsl; subst hsl; simp
  · intro sl hsl; simp at hsl; subst hsl; exact ⟨Int.le_refl _, Int.le_refl _⟩
  · intro k hk
    have : (0 : Int) ≤ (k : Int) * step := Int.mul_nonneg (by omega) (by omega)
    exact ⟨⟨start, end_⟩, by simp, by simp only; omega, hk⟩

/-- the plan `RangeQuery` makes tiles the grid that starts at its first slice -/
theorem plan_ok (start end_ lookback step : Int) (hs : 1 ≤ step) (slices : List TR)
    (h : plan start end_ lookback step = some slices) :
    SlicesOK (slices.headD ⟨start, end_⟩).s step end_ slices := by
  unfold plan at h
  simp only [] at h
  split at h
  · cases h; exact single_ok start end_ step hs
  · by_cases hgap : end_ - start ≤ step
    · have : sliceRange start end_ step (sliceSize step) = some [⟨start, end_⟩] := by
        unfold sliceRange; simp [hgap]
      rw [this] at h; cases h
      exact single_ok start end_ step hs
    · obtain ⟨U, k0, rfl, hchain, hends, hq⟩ := sliceRange_shape start end_ step (sliceSize step) slices h hgap
      have hlast := slices_reach_end start end_ step (sliceSize step) (by omega) _ h
      have hcontig := slices_contiguous start end_ step (sliceSize step) _ h
      have hne : trimEnds U ≠ [] := by
        intro e; rw [e] at hlast; simp at hlast
      have hUne : U ≠ [] := by
        intro e; rw [e] at hne; exact hne rfl
      have hdvd : step ∣ sliceSize step := Int.dvd_of_emod_eq_zero (slice_size_multiple_of_step step (by omega))
      have hhead : ∀ d, ((trimEnds U).headD d).s = k0 := by
        intro d
        rw [trimEnds_head]
        cases U with
        | nil => exact absurd rfl hUne
        | cons a rest =>
          cases rest with
          | nil => exact hchain
          | cons b r => exact hchain.1
      rw [hhead]
      refine ⟨?_, trimEnds_ordered (sliceSize step) (by omega) U k0 hchain, ?_, ?_⟩
      · intro sl hsl
        obtain ⟨y, hy, e1, _⟩ := trimEnds_mem U sl hsl
        rw [e1]
        exact Int.dvd_trans hdvd (chainFrom_starts (sliceSize step) (by omega) U k0 hchain y hy).1
      · intro sl hsl
        obtain ⟨y, hy, e1, e2⟩ := trimEnds_mem U sl hsl
        have := (chainFrom_starts (sliceSize step) (by omega) U k0 hchain y hy).2
        have := hends y hy
        omega
      · intro k hk
        have hk0 : (0 : Int) ≤ (k : Int) * step := Int.mul_nonneg (by omega) (by omega)
        exact contig_covers (trimEnds U) _ hcontig (fun d => by rw [hhead d]; omega) hne
          (fun e he => by rw [hlast] at he; simp at he; omega)

/-- **C13, the statement at full strength** (`C13_statement`): for every start, end, lookback and step ≥ 1s, every
presence pattern of a series and every arrival order of the slice answers, merging gives exactly the runs of one
unsliced evaluation on the same grid. -/
theorem C13_holds : C13_statement := by
  intro start end_ lookback step fp present slices arrival hs hse hplan hperm
  have ok := plan_ok start end_ lookback step hs slices hplan
  exact sliced_eq_unsliced _ step end_ hs fp present slices arrival ok hperm


/-! ## the source skeleton the model was translated from

`Model/Range.lean` is a hand translation of six Go functions.  `Gen/RangeSrc` (regenerated from /repo on every run)
lists, for each of them, every condition, assignment, append and return in source order; the expectations below are
the lists the translation was made from.  An edit of any of these functions breaks `source_shape` before the
differential run has to find an input for it. -/

def expected_overlaps : List String := ["if a.Fingerprint != b.Fingerprint", "return c, false", "if a.Start.Sub(b.Start).Abs() <= step && a.End.Sub(b.End).Abs() <= step", "if a.Start.Before(b.Start)", "c.Start = a.Start", "c.Start = b.Start", "if a.End.After(b.End)", "c.End = a.End", "c.End = b.End", "return c, true", "if a.Start.Before(b.Start) && a.End.After(b.Start) && a.End.Before(b.End)", "c.Start = a.Start", "c.End = b.End", "return c, true", "if a.Start.After(b.Start) && a.Start.Before(b.End) && a.End.After(b.End)", "c.Start = b.Start", "c.End = a.End", "return c, true", "if a.Start.Before(b.Start) && a.End.Before(b.End) && a.End.Sub(b.Start).Abs() <= step", "c.Start = a.Start", "c.End = b.End", "return c, true", "if a.Start.After(b.Start) && a.End.After(b.End) && a.Start.Sub(b.End).Abs() <= step", "c.Start = b.Start", "c.End = a.End", "return c, true", "if a.Start.Before(b.Start) && a.End.After(b.End)", "c.Start = a.Start", "c.End = a.End", "return c, true", "if a.Start.Sub(b.Start).Abs() <= step && a.End.After(b.End)", "if a.Start.Before(b.Start)", "c.Start = a.Start", "c.Start = b.Start", "c.End = a.End", "return c, true", "if a.Start.Before(b.Start) && a.End.Sub(b.End).Abs() <= step", "c.Start = a.Start", "if a.End.After(b.End)", "c.End = a.End", "c.End = b.End", "return c, true", "if a.Start.After(b.Start) && a.End.Before(b.End)", "c.Start = b.Start", "c.End = b.End", "return c, true", "return c, false"]
def expected_mergeRanges : List String := ["range source", "if _, ok = merged[src.Fingerprint]; !ok", "for i := 0; i < len(merged[src.Fingerprint]); i++", "if tr, ok = Overlaps(merged[src.Fingerprint][i], src, step); ok", "merged[src.Fingerprint][i].Start = tr.Start", "merged[src.Fingerprint][i].End = tr.End", "if !found", "append(merged[src.Fingerprint], src)", "if !hadMerged", "return source, false", "range merged", "for ; ok; ", "range merged", "range merged", "append(all, ranges...)", "sort.Stable(all)", "return all, hadMerged"]
def expected_expandRangesEnd : List String := ["range src", "src[i].End = src[i].End.Add(step - time.Second)"]
def expected_appendSampleToRanges : List String := ["range vals", "range dst", "if dst[i].Fingerprint != fp", "if !ts.Before(dst[i].Start.Add(step*-1)) && !ts.After(dst[i].Start)", "dst[i].Start = ts", "if !ts.Before(dst[i].Start) &&\n\t!ts.After(dst[i].End.Add(step))", "dst[i].End = ts", "if !found", "append(dst, MetricTimeRange{\n\tFingerprint:\tfp,\n\tLabels:\t\tls,\n\tStart:\t\tts,\n\tEnd:\t\tts,\n})", "return dst"]
def expected_sliceRange : List String := ["if end.Sub(start) <= resolution", "return []TimeRange{{Start: start, End: end}}", "rstart := start.Round(sliceSize)", "if rstart.After(start)", "if s.End.After(end)", "s.End = end", "append(slices, s)", "for ; rstart.Before(end); ", "if s.End.After(end)", "s.End = end", "append(slices, s)", "rstart = rstart.Add(sliceSize)", "range slices", "if i < len(slices)-1", "slices[i].End = slices[i].End.Add(time.Second * -1)", "return slices"]
def expected_rangeQuerySlicing : List String := ["queryStep := (time.Hour * 2).Round(step)", "if queryStep < step", "queryStep = step", "if queryStep > lookback", "queryStep = lookback", "slices = append(slices, TimeRange{Start: start, End: end})", "slices = sliceRange(start, end, step, queryStep)", "sliceKey := strconv.FormatUint(query.query.CacheKey(), 10)"]
theorem source_shape :
    Pint.Gen.RangeSrc.overlaps = expected_overlaps ∧
    Pint.Gen.RangeSrc.mergeRanges = expected_mergeRanges ∧
    Pint.Gen.RangeSrc.expandRangesEnd = expected_expandRangesEnd ∧
    Pint.Gen.RangeSrc.appendSampleToRanges = expected_appendSampleToRanges ∧
    Pint.Gen.RangeSrc.sliceRange = expected_sliceRange ∧
    Pint.Gen.RangeSrc.rangeQuerySlicing = expected_rangeQuerySlicing := by
  refine ⟨rfl, rfl, rfl, rfl, rfl, rfl⟩


end Pint.Props.C13
