import PintModel.Model.Range
namespace Pint.Props.C13
theorem placeholder : True := trivial
end Pint.Props.C13
