/-
  C13 — slicing a range query is invisible in its result.
  Proved here: the pairwise behaviour of `Overlaps` on the class of ranges that slices produce
  (adjacent ⇒ hull in both argument orders, separated ⇒ no merge in both orders, any merge is the
  hull of two connected ranges), the per-slice folding of samples into maximal runs, and the slice
  plan facts. The order-independence of the `MergeRanges` fixpoint over whole lists is NOT proved
  (see `C13_statement` and DESIGN.md); it is covered by the correspondence and end-to-end runs.
-/
import PintModel.Model.Range
import PintModel.Spec.Presence
set_option linter.unusedSimpArgs false
namespace Pint.Props.C13
open Pint.Range Pint.Spec.Presence

/-- two ranges of one series are *adjacent*: the second starts one second after the first ends
    (what a run crossing a slice boundary looks like after `ExpandRangesEnd`) -/
def Adjacent (a b : MTR) : Prop := a.fp = b.fp ∧ a.s ≤ a.e ∧ b.s ≤ b.e ∧ b.s = a.e + 1
/-- two ranges of one series are *separated*: more than a step lies between them (a missing sample) -/
def Separated (a b : MTR) (step : Int) : Prop := a.s ≤ a.e ∧ b.s ≤ b.e ∧ a.e + step < b.s

theorem iabs_le (x k : Int) : iabs x ≤ k ↔ (-k ≤ x ∧ x ≤ k) := by
  unfold iabs; split <;> omega

/-- consecutive samples merge across a slice boundary: adjacent ranges merge into their hull,
    whichever of the two arrived first -/
theorem overlaps_adjacent (a b : MTR) (step : Int) (hs : 1 ≤ step) (h : Adjacent a b) :
    overlaps a b step = some ⟨a.s, b.e⟩ ∧ overlaps b a step = some ⟨a.s, b.e⟩ := by
  obtain ⟨hfp, ha, hb, hab⟩ := h
  constructor
  · unfold overlaps
    simp only [hfp, ne_eq, not_true_eq_false, if_false, iabs_le]
    split
    · rename_i h1
      have m1 : min a.s b.s = a.s := by omega
      have m2 : max a.e b.e = b.e := by omega
      rw [m1, m2]
    · split
      · rfl
      · split
        · omega
        · split
          · rfl
          · rename_i h4
            exfalso; apply h4; omega
  · unfold overlaps
    simp only [hfp, ne_eq, not_true_eq_false, if_false, iabs_le]
    split
    · rename_i h1
      have m1 : min b.s a.s = a.s := by omega
      have m2 : max b.e a.e = b.e := by omega
      rw [m1, m2]
    · split
      · omega
      · split
        · omega
        · split
          · omega
          · split
            · rfl
            · rename_i h5
              exfalso; apply h5; omega

/-- a single missing sample always produces a gap: separated ranges are never merged, in either order -/
theorem overlaps_separated (a b : MTR) (step : Int) (hs : 0 ≤ step) (h : Separated a b step) :
    overlaps a b step = none ∧ overlaps b a step = none := by
  obtain ⟨ha, hb, hab⟩ := h
  constructor <;>
  · unfold overlaps
    simp only [iabs_le]
    repeat' split
    all_goals first | rfl | (exfalso; omega)

/-- whenever `Overlaps` merges, the result is exactly the hull of the two ranges and the two ranges
    are connected (overlapping, or at most `step` apart): merging never bridges a gap of more than a
    step and never invents or loses coverage -/
theorem overlaps_some_is_hull (a b : MTR) (step : Int) (hs : 0 ≤ step) (ha : a.s ≤ a.e) (hb : b.s ≤ b.e) (c : TR)
    (h : overlaps a b step = some c) :
    c.s = min a.s b.s ∧ c.e = max a.e b.e ∧ a.s ≤ b.e + step ∧ b.s ≤ a.e + step := by
  unfold overlaps at h
  simp only [iabs_le] at h
  repeat' split at h
  all_goals first
    | (cases h; done)
    | (cases h; (try dsimp only); refine ⟨by omega, by omega, by omega, by omega⟩)

/-! ### per-slice folding of samples into ranges -/

def mk (fp : Nat) (p : Int × Int) : MTR := ⟨fp, p.1, p.2⟩
def render (fp : Nat) (acc : List (Int × Int)) : List MTR := acc.reverse.map (mk fp)

/-- earlier ranges that ended more than a step before `t` are skipped by `appendSample` -/
theorem appendSample_skip (step : Int) (fp : Nat) (t : Int) (init rest : List MTR)
    (h : ∀ r ∈ init, r.fp = fp → r.e + step < t ∧ r.s < t) :
    appendSample step fp t (init ++ rest) = init ++ appendSample step fp t rest := by
  induction init with
  | nil => rfl
  | cons r init ih =>
    have hr := h r (by simp)
    have ih' := ih (fun x hx => h x (by simp [hx]))
    simp only [List.cons_append, appendSample]
    by_cases hfp : r.fp = fp
    · obtain ⟨h1, h2⟩ := hr hfp
      have c1 : ¬ (r.s - step ≤ t ∧ t ≤ r.s) := by omega
      have c2 : ¬ (r.s ≤ t ∧ t ≤ r.e + step) := by omega
      simp [hfp, c1, c2, ih']
    · simp [hfp, ih']

/-- the last range either takes the sample (at most a step later) or a new range is opened -/
theorem appendSample_last (step : Int) (fp : Nat) (t a b : Int) (hab : a ≤ b) (hbt : b < t) :
    appendSample step fp t [⟨fp, a, b⟩] =
      if t ≤ b + step then [⟨fp, a, t⟩] else [⟨fp, a, b⟩, ⟨fp, t, t⟩] := by
  have c1 : ¬ (a - step ≤ t ∧ t ≤ a) := by omega
  simp only [appendSample, ne_eq, not_true_eq_false, if_false, c1]
  by_cases h : t ≤ b + step
  · have : a ≤ t ∧ t ≤ b + step := ⟨by omega, h⟩
    simp [this, h]
  · have : ¬ (a ≤ t ∧ t ≤ b + step) := by omega
    simp [this, h]

/-- invariant of the fold: runs are well-formed and every older run ended more than a step before the
    current one started -/
def Inv (step : Int) : List (Int × Int) → Prop
  | [] => True
  | (a, b) :: rest => a ≤ b ∧ ∀ r ∈ rest, r.1 ≤ r.2 ∧ r.2 + step < a

theorem inv_addRun (step : Int) (hs : 0 ≤ step) (acc : List (Int × Int)) (t : Int) (hi : Inv step acc)
    (ht : ∀ a b rest, acc = (a, b) :: rest → b < t) : Inv step (addRun step acc t) := by
  cases acc with
  | nil => simp [addRun, Inv]
  | cons p rest =>
    obtain ⟨a, b⟩ := p
    obtain ⟨hab, hrest⟩ := hi
    have hbt := ht a b rest rfl
    simp only [addRun]
    split
    · exact ⟨by omega, hrest⟩
    · refine ⟨by omega, ?_⟩
      intro r hr
      cases List.mem_cons.1 hr with
      | inl h => subst h; exact ⟨hab, by omega⟩
      | inr h => have := hrest r h; exact ⟨this.1, by omega⟩

/-- one sample: the code's step on the rendered ranges is the spec's step on the runs -/
theorem appendSample_render (step : Int) (hs : 0 ≤ step) (fp : Nat) (acc : List (Int × Int)) (t : Int)
    (hi : Inv step acc) (ht : ∀ a b rest, acc = (a, b) :: rest → b < t) :
    appendSample step fp t (render fp acc) = render fp (addRun step acc t) := by
  cases acc with
  | nil => simp [render, addRun, appendSample, mk]
  | cons p rest =>
    obtain ⟨a, b⟩ := p
    obtain ⟨hab, hrest⟩ := hi
    have hbt := ht a b rest rfl
    have hskip := appendSample_skip step fp t (rest.reverse.map (mk fp)) [⟨fp, a, b⟩] (by
      intro r hr _
      simp only [List.mem_map, List.mem_reverse] at hr
      obtain ⟨q, hq, rfl⟩ := hr
      have := hrest q hq
      simp only [mk]
      omega)
    have hlast := appendSample_last step fp t a b hab hbt
    simp only [render, List.reverse_cons, List.map_append, List.map_cons, List.map_nil, mk] at *
    rw [hskip, hlast]
    simp only [addRun]
    split <;> simp [mk]

/-- per slice, samples arriving in ascending order are folded into exactly the maximal runs of
    samples at most a step apart (`AppendSampleToRanges` = `Spec.Presence.runs`), for any number of
    samples and any gaps -/
theorem append_is_runs_from (step : Int) (hs : 0 ≤ step) (fp : Nat) (ts : List Int) :
    ∀ (acc : List (Int × Int)), Inv step acc →
      (∀ a b rest, acc = (a, b) :: rest → Asc b ts) → (acc = [] → ∃ lo, Asc lo ts) →
      appendSamples step fp ts (render fp acc) = render fp (ts.foldl (addRun step) acc) := by
  induction ts with
  | nil => intro acc _ _ _; simp [appendSamples]
  | cons t ts ih =>
    intro acc hi hasc hnil
    have ht : ∀ a b rest, acc = (a, b) :: rest → b < t := fun a b rest h => (hasc a b rest h).1
    simp only [appendSamples, List.foldl_cons]
    rw [appendSample_render step hs fp acc t hi ht]
    have hi' := inv_addRun step hs acc t hi ht
    have hasc' : ∀ a b rest, addRun step acc t = (a, b) :: rest → Asc b ts := by
      intro a b rest h
      have htail : Asc t ts := by
        cases acc with
        | nil => obtain ⟨lo, hlo⟩ := hnil rfl; exact hlo.2
        | cons p r => obtain ⟨a0, b0⟩ := p; exact (hasc a0 b0 r rfl).2
      cases acc with
      | nil => simp only [addRun, List.cons.injEq, Prod.mk.injEq] at h; obtain ⟨⟨_, hb⟩, _⟩ := h; subst hb; exact htail
      | cons p r =>
        obtain ⟨a0, b0⟩ := p
        simp only [addRun] at h
        split at h
        · simp only [List.cons.injEq, Prod.mk.injEq] at h; obtain ⟨⟨_, hb⟩, _⟩ := h; subst hb; exact htail
        · simp only [List.cons.injEq, Prod.mk.injEq] at h; obtain ⟨⟨_, hb⟩, _⟩ := h; subst hb; exact htail
    have := ih (addRun step acc t) hi' hasc' (by
      intro h
      cases acc with
      | nil => simp [addRun] at h
      | cons p r => obtain ⟨a0, b0⟩ := p; simp only [addRun] at h; split at h <;> simp at h)
    simpa [appendSamples] using this

theorem append_is_runs (step : Int) (hs : 0 ≤ step) (fp : Nat) (lo : Int) (ts : List Int) (h : Asc lo ts) :
    appendSamples step fp ts [] = (runs step ts).map (mk fp) := by
  have := append_is_runs_from step hs fp ts [] (by simp [Inv]) (by intro a b rest h; cases h) (fun _ => ⟨lo, h⟩)
  simpa [render, runs] using this

/-! ### the slice plan -/

/-- consecutive slices: each starts one second after the previous one ends -/
def Contig : List TR → Prop
  | [] => True
  | [_] => True
  | x :: y :: r => y.s = x.e + 1 ∧ Contig (y :: r)

/-- untrimmed slices: each starts where the previous one ends, `size` after its own start -/
def ChainFrom (size : Int) : Int → List TR → Prop
  | _, [] => True
  | k, [x] => x.s = k
  | k, x :: y :: r => x.s = k ∧ x.e = k + size ∧ ChainFrom size (k + size) (y :: r)

theorem sliceLoop_chain (size end_ : Int) (fuel : Nat) (k : Int) : ChainFrom size k (sliceLoop fuel k end_ size) := by
  induction fuel generalizing k with
  | zero => simp [sliceLoop, ChainFrom]
  | succ f ih =>
    simp only [sliceLoop]
    split
    · have ihk := ih (k + size)
      cases hrest : sliceLoop f (k + size) end_ size with
      | nil => simp [ChainFrom]
      | cons y r =>
        rw [hrest] at ihk
        refine ⟨rfl, ?_, ihk⟩
        -- the next iteration ran, so k + size < end_ and this slice was not clipped
        cases f with
        | zero => simp [sliceLoop] at hrest
        | succ f' =>
          simp only [sliceLoop] at hrest
          split at hrest
          · rename_i hlt; simp only []; split <;> omega
          · cases hrest
    · simp [ChainFrom]

theorem trimEnds_contig (size : Int) (k : Int) (l : List TR) (h : ChainFrom size k l) : Contig (trimEnds l) := by
  induction l generalizing k with
  | nil => simp [trimEnds, Contig]
  | cons x rest ih =>
    cases rest with
    | nil => simp [trimEnds, Contig]
    | cons y r =>
      obtain ⟨hx, hxe, hrest⟩ := h
      have ihr := ih (k + size) hrest
      have hy : y.s = k + size := by
        cases r with
        | nil => exact hrest
        | cons z r' => exact hrest.1
      cases r with
      | nil => simp only [trimEnds, Contig]; exact ⟨by omega, trivial⟩
      | cons z r' =>
        simp only [trimEnds] at ihr ⊢
        refine ⟨by (try dsimp only); omega, ihr⟩

/-- the slices `sliceRange` produces are consecutive with one-second seams, for every start, end,
    resolution and slice size (whenever it terminates) -/
theorem slices_contiguous (start end_ res size : Int) (l : List TR)
    (h : sliceRange start end_ res size = some l) : Contig l := by
  unfold sliceRange at h
  split at h
  · cases h; simp [Contig]
  · split at h
    · cases h
    · rename_i hres hsize
      simp only [Option.some.injEq] at h
      subst h
      by_cases hr : roundTime start size > start
      · simp only [hr, if_true]
        apply trimEnds_contig size (roundTime start size - size)
        have hc := sliceLoop_chain size end_ ((end_ - roundTime start size) / size + 2).toNat (roundTime start size)
        cases hl : sliceLoop ((end_ - roundTime start size) / size + 2).toNat (roundTime start size) end_ size with
        | nil => simp [ChainFrom]
        | cons y r =>
          rw [hl] at hc
          have hy : y.s = roundTime start size := by
            cases r with
            | nil => exact hc
            | cons z r' => exact hc.1
          -- the loop ran at least once, so rstart < end_ and the first slice was not clipped
          have hlt : roundTime start size < end_ := by
            cases hf : ((end_ - roundTime start size) / size + 2).toNat with
            | zero => rw [hf] at hl; simp [sliceLoop] at hl
            | succ f =>
              rw [hf] at hl
              simp only [sliceLoop] at hl
              split at hl
              · assumption
              · cases hl
          refine ⟨rfl, ?_, ?_⟩
          · simp only []; split <;> omega
          · have : roundTime start size - size + size = roundTime start size := by omega
            rw [this]; exact hc
      · simp only [hr, if_false, List.nil_append]
        exact trimEnds_contig size _ _ (sliceLoop_chain size end_ _ _)

theorem sliceLoop_last (size end_ : Int) (hsz : 0 < size) (fuel : Nat) (k : Int) (hk : k < end_)
    (hf : end_ - k ≤ fuel * size) :
    ((sliceLoop fuel k end_ size).getLast?).map (·.e) = some end_ := by
  induction fuel generalizing k with
  | zero => simp at hf; omega
  | succ f ih =>
    simp only [sliceLoop, hk, if_true]
    by_cases hnext : k + size < end_
    · have hf' : end_ - (k + size) ≤ f * size := by
        have : ((f + 1 : Nat) : Int) * size = f * size + size := by
          rw [Int.natCast_add]; simp [Int.add_mul]
        omega
      have := ih (k + size) hnext hf'
      cases hl : sliceLoop f (k + size) end_ size with
      | nil => rw [hl] at this; simp at this
      | cons y r =>
        rw [hl] at this
        simpa [List.getLast?_cons_cons] using this
    · have hnil : sliceLoop f (k + size) end_ size = [] := by
        cases f with
        | zero => rfl
        | succ f' => simp [sliceLoop, hnext]
      rw [hnil]
      simp only [List.getLast?_singleton, Option.map_some, Option.some.injEq]
      split <;> omega

theorem trimEnds_last (l : List TR) : ((trimEnds l).getLast?).map (·.e) = (l.getLast?).map (·.e) := by
  induction l with
  | nil => rfl
  | cons x rest ih =>
    cases rest with
    | nil => rfl
    | cons y r =>
      simp only [trimEnds]
      cases hr : trimEnds (y :: r) with
      | nil => cases r <;> simp [trimEnds] at hr
      | cons z r' =>
        rw [hr] at ih
        simpa [List.getLast?_cons_cons] using ih

/-- the last slice ends exactly at `end`: the plan reaches the end of the requested range -/
theorem slices_reach_end (start end_ res size : Int) (hres : 0 ≤ res) (l : List TR)
    (h : sliceRange start end_ res size = some l) : (l.getLast?).map (·.e) = some end_ := by
  unfold sliceRange at h
  split at h
  · cases h; rfl
  · split at h
    · cases h
    · rename_i hgap hsize
      have hsz : 0 < size := by omega
      simp only [Option.some.injEq] at h
      subst h
      rw [trimEnds_last]
      by_cases hlt : roundTime start size < end_
      · -- the loop runs; its last slice ends at end_
        have hfuel : end_ - roundTime start size ≤ (((end_ - roundTime start size) / size + 2).toNat : Int) * size := by
          have hq := Int.mul_ediv_add_emod (end_ - roundTime start size) size
          have hm := Int.emod_lt_of_pos (end_ - roundTime start size) hsz
          have hm0 := Int.emod_nonneg (end_ - roundTime start size) (by omega : size ≠ 0)
          have hqn : 0 ≤ (end_ - roundTime start size) / size := Int.ediv_nonneg (by omega) (by omega)
          have : (((end_ - roundTime start size) / size + 2).toNat : Int) = (end_ - roundTime start size) / size + 2 := by
            rw [Int.toNat_of_nonneg]; omega
          rw [this, Int.add_mul]
          have : size * ((end_ - roundTime start size) / size) = (end_ - roundTime start size) / size * size := Int.mul_comm _ _
          omega
        have hlast := sliceLoop_last size end_ hsz _ (roundTime start size) hlt hfuel
        cases hl : sliceLoop ((end_ - roundTime start size) / size + 2).toNat (roundTime start size) end_ size with
        | nil => rw [hl] at hlast; simp at hlast
        | cons y r =>
          rw [hl] at hlast
          rw [List.getLast?_append]
          cases hg : (y :: r).getLast? with
          | none => rw [hg] at hlast; simp at hlast
          | some z => rw [hg] at hlast; simpa using hlast
      · -- the loop does not run: only the first (clipped) slice exists
        have hnil : sliceLoop ((end_ - roundTime start size) / size + 2).toNat (roundTime start size) end_ size = [] := by
          cases ((end_ - roundTime start size) / size + 2).toNat with
          | zero => rfl
          | succ f => simp [sliceLoop, hlt]
        rw [hnil, List.append_nil]
        have hr : roundTime start size > start := by omega
        simp only [hr, if_true, List.getLast?_singleton, Option.map_some, Option.some.injEq]
        split <;> omega

/-- `(2h).Round(step)` is zero exactly when the step exceeds four hours (the reason `RangeQuery`
    falls back to the step itself as slice size) -/
theorem slice_size_zero_iff (step : Int) (hs : 0 < step) : roundDur 7200 step = 0 ↔ 14400 < step := by
  unfold roundDur
  have h0 : ¬ step ≤ 0 := by omega
  simp only [h0, if_false]
  have hmod := Int.emod_lt_of_pos 7200 hs
  have hmod0 := Int.emod_nonneg 7200 (by omega : step ≠ 0)
  by_cases hbig : 7200 < step
  · have he : (7200 : Int) % step = 7200 := Int.emod_eq_of_lt (by omega) hbig
    rw [he]
    split <;> omega
  · split <;> omega

/-- the slice size `RangeQuery` uses is positive for every positive step, so slicing terminates -/
theorem sliceSize_pos (step : Int) (hs : 0 < step) : 0 < sliceSize step := by
  unfold sliceSize
  simp only []
  split
  · exact hs
  · omega

/-- slicing always terminates with a plan: `plan` never answers `none` for a positive step -/
theorem plan_terminates (start end_ lookback step : Int) (hs : 0 < step) :
    ∃ l, plan start end_ lookback step = some l := by
  unfold plan
  simp only []
  split
  · exact ⟨_, rfl⟩
  · unfold sliceRange
    have := sliceSize_pos step hs
    split
    · exact ⟨_, rfl⟩
    · have h0 : ¬ sliceSize step ≤ 0 := by omega
      simp only [h0, if_false]
      exact ⟨_, rfl⟩

theorem sliceRange_none_of_zero (start end_ res : Int) (h : res < end_ - start) :
    sliceRange start end_ res 0 = none := by
  unfold sliceRange
  have : ¬ end_ - start ≤ res := by omega
  simp [this]

/-- the slice size pint chooses is a whole number of steps, so the per-slice sample grids line up
    into one global grid -/
theorem slice_size_multiple_of_step (step : Int) (hs : 0 < step) : sliceSize step % step = 0 := by
  unfold sliceSize
  simp only []
  split
  · exact Int.emod_self
  unfold roundDur
  have h0 : ¬ step ≤ 0 := by omega
  simp only [h0, if_false]
  split
  · rw [Int.sub_emod, Int.emod_emod_of_dvd _ (Int.dvd_refl step)]; simp
  · have : (7200 + step - 7200 % step) = step + (7200 - 7200 % step) := by omega
    rw [this, Int.add_emod, Int.emod_self, Int.sub_emod, Int.emod_emod_of_dvd _ (Int.dvd_refl step)]; simp

/-! ### two ranges through the whole merge (either arrival order) -/

theorem mergeRec_single (step : Int) (f : Nat) (x : MTR) : mergeRec step f [x] = ([x], false) := by
  cases f with
  | zero => simp [mergeRec]
  | succ f => simp [mergeRec, mergePass, absorb]

/-- a run that crosses a slice boundary comes back as ONE range, whichever slice answered first -/
theorem merge_two_adjacent (a b : MTR) (step : Int) (hs : 1 ≤ step) (h : Adjacent a b) :
    mergeSeries step [a, b] = [⟨a.fp, a.s, b.e⟩] ∧ mergeSeries step [b, a] = [⟨a.fp, a.s, b.e⟩] := by
  obtain ⟨h1, h2⟩ := overlaps_adjacent a b step hs h
  have hfp := h.1
  constructor
  · simp [mergeSeries, mergeRec, mergePass, absorb, h1, mergeLoop, mergeRec_single, sortByStart, insertSorted]
  · simp [mergeSeries, mergeRec, mergePass, absorb, h2, mergeLoop, mergeRec_single, sortByStart, insertSorted, hfp]

/-- a missing sample keeps two ranges apart, whichever slice answered first; the result is sorted -/
theorem merge_two_separated (a b : MTR) (step : Int) (hs : 0 ≤ step) (h : Separated a b step) :
    mergeSeries step [a, b] = [a, b] ∧ mergeSeries step [b, a] = [a, b] := by
  obtain ⟨h1, h2⟩ := overlaps_separated a b step hs h
  obtain ⟨ha, hb, hab⟩ := h
  have hlt : ¬ b.s ≤ a.s := by omega
  have hle : a.s ≤ b.s := by omega
  constructor
  · simp [mergeSeries, mergeRec, mergePass, absorb, h1, sortByStart, insertSorted, hle]
  · simp [mergeSeries, mergeRec, mergePass, absorb, h2, sortByStart, insertSorted, hlt]

/-! ### the full statement (NOT proved: order-independence of the MergeRanges fixpoint over whole lists) -/

/-- sample instants of one slice `[s, e]` on its own grid -/
def gridSamples (present : Int → Bool) (s e step : Int) : List Int :=
  (List.range ((e - s) / step + 1).toNat).filterMap fun (k : Nat) =>
    let t : Int := s + (k : Int) * step
    if present t then some t else none

/-- what one slice answers for one series, after `ExpandRangesEnd` -/
def sliceRanges (step : Int) (fp : Nat) (present : Int → Bool) (sl : TR) : List MTR :=
  expandEnds step (appendSamples step fp (gridSamples present sl.s sl.e step) [])

/-- C13 at full strength: for every start/end/step (step ≥ 1s), every presence pattern and every
    arrival order of the slice answers, merging gives exactly the runs of one unsliced evaluation on
    the same grid. -/
def C13_statement : Prop :=
  ∀ (start end_ lookback step : Int) (fp : Nat) (present : Int → Bool) (slices arrival : List TR),
    1 ≤ step → start ≤ end_ →
    plan start end_ lookback step = some slices → arrival.Perm slices →
    mergeSeries step (arrival.flatMap (sliceRanges step fp present)) =
      expandEnds step ((runs step (gridSamples present (slices.headD ⟨start, end_⟩).s end_ step)).map (mk fp))

/-- non-vacuity / sanity: a gap of two steps splits, one step does not -/
theorem runs_demo : runs 60 [0, 60, 120, 240, 300] = [(0, 120), (240, 300)] ∧ Asc (-1) [0, 60, 120, 240, 300] := by
  refine ⟨by decide, ?_⟩
  simp [Asc]


set_option linter.unusedVariables false

/-! ## the MergeRanges fixpoint over whole lists, any arrival order -/

/-- not more than `step` apart (the negation of "separated" in either direction) -/
def near (a b : MTR) (step : Int) : Bool := decide (a.s ≤ b.e + step ∧ b.s ≤ a.e + step)

/-- the relation every two ranges of a family keep: strictly ordered in both coordinates, and either touching
(no uncovered second between them) or more than a step apart -/
def Rel (step : Int) (x y : MTR) : Prop :=
  (x.s < y.s ∧ x.e < y.e ∧ (y.s ≤ x.e + 1 ∨ x.e + step < y.s)) ∨
  (y.s < x.s ∧ y.e < x.e ∧ (x.s ≤ y.e + 1 ∨ y.e + step < x.s))

def F2 (step : Int) (x y z : MTR) : Prop := x.s < y.s → y.s < z.s → x.e + step < z.s

/-- `x'` is what the inner loop of MergeRanges made of `x` when `src` came by: untouched, or the hull -/
def Became (step : Int) (src x x' : MTR) : Prop :=
  (x'.s = x.s ∧ x'.e = x.e) ∨ (x.s ≤ src.e + step ∧ src.s ≤ x.e + step ∧ x'.s = min x.s src.s ∧ x'.e = max x.e src.e)

theorem rel_symm {step : Int} {x y : MTR} (h : Rel step x y) : Rel step y x := by
  unfold Rel at *; omega

theorem rel_irrefl (step : Int) (x : MTR) : ¬ Rel step x x := by
  unfold Rel; omega

/-- `Overlaps` on two ranges that are strictly ordered in both coordinates: fires exactly when they are near, with the
hull, whichever is the first argument -/
theorem overlaps_stair (a b : MTR) (step : Int) (hs : 0 ≤ step) (hfp : a.fp = b.fp) (ha : a.s ≤ a.e) (hb : b.s ≤ b.e)
    (hst : (a.s < b.s ∧ a.e < b.e) ∨ (b.s < a.s ∧ b.e < a.e)) :
    overlaps a b step = if near a b step then some ⟨min a.s b.s, max a.e b.e⟩ else none := by
  cases ho : overlaps a b step with
  | some c =>
    obtain ⟨h1, h2, h3, h4⟩ := overlaps_some_is_hull a b step hs ha hb c ho
    have : near a b step = true := by simp [near]; omega
    rw [this]; simp
    cases c; simp_all
  | none =>
    have : near a b step = false := by
      unfold overlaps at ho
      simp only [hfp, ne_eq, not_true_eq_false, if_false, iabs_le] at ho
      simp only [near, decide_eq_false_iff_not]
      repeat' split at ho
      all_goals first | (cases ho; done) | omega
    rw [this]; simp

theorem order_kept (step : Int) (src x y x' y' : MTR)
    (rxy : Rel step x y) (hx : Became step src x x') (hy : Became step src y y')
    (u6 : F2 step src y x) (h : x'.s < y'.s) : x.s < y.s := by
  unfold F2 Rel Became at *
  omega

theorem far2_core (step : Int) (src x y z x' y' z' : MTR)
    (hxy : x.s < y.s) (hyz : y.s < z.s)
    (rxs : Rel step x src) (rys : Rel step y src) (rzs : Rel step z src)
    (hx : Became step src x x') (hz : Became step src z z')
    (t1 : F2 step x y z) (u1 : F2 step x y src) (w5 : F2 step src y z) :
    x'.e + step < z'.s := by
  unfold F2 Rel Became at *
  omega

theorem rel_core (step : Int) (hs : 1 ≤ step) (src x y x' y' : MTR)
    (wx : x.s ≤ x.e) (wy : y.s ≤ y.e) (ws : src.s ≤ src.e)
    (rxy : Rel step x y) (rxs : Rel step x src) (rys : Rel step y src)
    (hx : Became step src x x') (hy : Became step src y y')
    (u1 : F2 step x y src) (u2 : F2 step x src y) (u3 : F2 step y x src) (u4 : F2 step y src x) (u5 : F2 step src x y) (u6 : F2 step src y x) :
    Rel step x' y' := by
  unfold F2 Rel Became at *
  rcases rxy with ⟨a, b, c⟩ | ⟨a, b, c⟩
  · clear u3 u4 u6
    rcases hx with ⟨p, q⟩ | ⟨p, q, r, t⟩ <;> rcases hy with ⟨p', q'⟩ | ⟨p', q', r', t'⟩ <;> rcases rxs with ⟨d, e, f⟩ | ⟨d, e, f⟩ <;> rcases rys with ⟨d', e', f'⟩ | ⟨d', e', f'⟩ <;> omega
  · clear u1 u2 u5
    rcases hx with ⟨p, q⟩ | ⟨p, q, r, t⟩ <;> rcases hy with ⟨p', q'⟩ | ⟨p', q', r', t'⟩ <;> rcases rxs with ⟨d, e, f⟩ | ⟨d, e, f⟩ <;> rcases rys with ⟨d', e', f'⟩ | ⟨d', e', f'⟩ <;> omega

/-- what the inner loop of MergeRanges does to one accumulated range -/
def gmap (step : Int) (src m : MTR) : MTR :=
  if near m src step then { m with s := min m.s src.s, e := max m.e src.e } else m

theorem became_gmap (step : Int) (src m : MTR) : Became step src m (gmap step src m) := by
  unfold Became gmap
  cases h : near m src step with
  | false => simp
  | true =>
    simp only [near, decide_eq_true_eq] at h
    right; exact ⟨h.1, h.2, by simp, by simp⟩

theorem became_self (step : Int) (src m : MTR) : Became step src m m := Or.inl ⟨rfl, rfl⟩

/-- a family of ranges of one series as MergeRanges meets them in a range query -/
structure Fam (step : Int) (fp : Nat) (F : List MTR) : Prop where
  wf : ∀ x ∈ F, x.fp = fp ∧ x.s ≤ x.e
  rel : F.Pairwise (Rel step)
  far2 : ∀ x ∈ F, ∀ y ∈ F, ∀ z ∈ F, F2 step x y z

theorem rel_of_mem {step : Int} {F : List MTR} (h : F.Pairwise (Rel step)) {x y : MTR} (hx : x ∈ F) (hy : y ∈ F) (hne : x ≠ y) :
    Rel step x y := by
  induction F with
  | nil => simp at hx
  | cons a F ih =>
    rw [List.pairwise_cons] at h
    rcases List.mem_cons.mp hx with rfl | hx' <;> rcases List.mem_cons.mp hy with rfl | hy'
    · exact absurd rfl hne
    · exact h.1 y hy'
    · exact rel_symm (h.1 x hx')
    · exact ih h.2 hx' hy'

theorem Fam.perm {step : Int} {fp : Nat} {F G : List MTR} (h : Fam step fp F) (p : F.Perm G) : Fam step fp G :=
  ⟨fun x hx => h.wf x (p.symm.subset hx),
   h.rel.perm p (fun r => rel_symm r),
   fun x hx y hy z hz => h.far2 x (p.symm.subset hx) y (p.symm.subset hy) z (p.symm.subset hz)⟩

theorem Fam.sublist {step : Int} {fp : Nat} {F G : List MTR} (h : Fam step fp F) (p : G.Sublist F) : Fam step fp G :=
  ⟨fun x hx => h.wf x (p.subset hx),
   h.rel.sublist p,
   fun x hx y hy z hz => h.far2 x (p.subset hx) y (p.subset hy) z (p.subset hz)⟩

/-- the inner loop, in closed form, for a source range that is strictly ordered against everything accumulated -/
theorem absorb_eq (step : Int) (hs : 0 ≤ step) (src : MTR) (hsrc : src.s ≤ src.e) (acc : List MTR)
    (h : ∀ m ∈ acc, m.fp = src.fp ∧ m.s ≤ m.e ∧ Rel step m src) :
    absorb step src acc = (acc.map (gmap step src), acc.any fun m => near m src step) := by
  induction acc with
  | nil => simp [absorb]
  | cons m rest ih =>
    have hm := h m (List.mem_cons_self ..)
    have ih' := ih (fun x hx => h x (List.mem_cons_of_mem _ hx))
    have hst : (m.s < src.s ∧ m.e < src.e) ∨ (src.s < m.s ∧ src.e < m.e) := by
      have := hm.2.2; unfold Rel at this; omega
    have ho := overlaps_stair m src step hs hm.1 hm.2.1 hsrc hst
    simp only [absorb, ih', ho, List.map_cons, List.any_cons]
    cases hn : near m src step with
    | true => simp [gmap, hn]
    | false => simp [gmap, hn]

/-- facts about the source range and the rest, read off the family invariant -/
theorem fam_split {step : Int} {fp : Nat} {acc rest : List MTR} {src : MTR} (h : Fam step fp (acc ++ src :: rest)) :
    (∀ a ∈ acc, Rel step a src) ∧ (∀ b ∈ rest, Rel step src b) ∧ (∀ a ∈ acc, ∀ b ∈ rest, Rel step a b) ∧
    acc.Pairwise (Rel step) ∧ rest.Pairwise (Rel step) := by
  have := h.rel
  rw [List.pairwise_append, List.pairwise_cons] at this
  obtain ⟨h1, ⟨h2, h3⟩, h4⟩ := this
  exact ⟨fun a ha => h4 a ha src (List.mem_cons_self ..), h2, fun a ha b hb => h4 a ha b (List.mem_cons_of_mem _ hb), h1, h3⟩

/-- one source range through the inner loop keeps the family invariant (whether or not anything merged: when nothing
did, this is the family without the source) -/
theorem fam_step {step : Int} (hs : 1 ≤ step) {fp : Nat} {acc rest : List MTR} {src : MTR}
    (h : Fam step fp (acc ++ src :: rest)) : Fam step fp (acc.map (gmap step src) ++ rest) := by
  obtain ⟨ras, rsb, rab, pacc, prest⟩ := fam_split h
  have msrc : src ∈ acc ++ src :: rest := by simp
  have macc : ∀ a ∈ acc, a ∈ acc ++ src :: rest := fun a ha => List.mem_append.mpr (Or.inl ha)
  have mrest : ∀ b ∈ rest, b ∈ acc ++ src :: rest := fun b hb => List.mem_append.mpr (Or.inr (List.mem_cons_of_mem _ hb))
  have wsrc := h.wf src msrc
  -- every new range comes from one old range, by position
  have origin : ∀ x' ∈ acc.map (gmap step src) ++ rest,
      ∃ x, ((x ∈ acc ∧ x' = gmap step src x) ∨ (x ∈ rest ∧ x' = x)) := by
    intro x' hx'
    rcases List.mem_append.mp hx' with hm | hr
    · obtain ⟨a, ha, rfl⟩ := List.mem_map.mp hm
      exact ⟨a, Or.inl ⟨ha, rfl⟩⟩
    · exact ⟨x', Or.inr ⟨hr, rfl⟩⟩
  have ofam : ∀ {x' x : MTR}, ((x ∈ acc ∧ x' = gmap step src x) ∨ (x ∈ rest ∧ x' = x)) →
      x ∈ acc ++ src :: rest ∧ Became step src x x' ∧ Rel step x src := by
    intro x' x hx
    rcases hx with ⟨ha, e⟩ | ⟨hb, e⟩
    · exact ⟨macc x ha, e ▸ became_gmap step src x, ras x ha⟩
    · exact ⟨mrest x hb, e ▸ became_self step src x, rel_symm (rsb x hb)⟩
  have same : ∀ {x' y' x : MTR}, ((x ∈ acc ∧ x' = gmap step src x) ∨ (x ∈ rest ∧ x' = x)) →
      ((x ∈ acc ∧ y' = gmap step src x) ∨ (x ∈ rest ∧ y' = x)) → x' = y' := by
    intro x' y' x hx hy
    rcases hx with ⟨ha, e⟩ | ⟨hb, e⟩ <;> rcases hy with ⟨ha', e'⟩ | ⟨hb', e'⟩
    · rw [e, e']
    · exact absurd (rab x ha x hb') (rel_irrefl step x)
    · exact absurd (rab x ha' x hb) (rel_irrefl step x)
    · rw [e, e']
  refine ⟨?_, ?_, ?_⟩
  · -- well-formed
    intro x' hx'
    obtain ⟨x, hx⟩ := origin x' hx'
    obtain ⟨hm, hb, _⟩ := ofam hx
    have wx := h.wf x hm
    rcases hx with ⟨ha, e⟩ | ⟨hb', e⟩
    · rw [e]; unfold gmap; split
      · exact ⟨wx.1, by simp only; omega⟩
      · exact wx
    · rw [e]; exact wx
  · -- pairwise relation
    rw [List.pairwise_append, List.pairwise_map]
    refine ⟨?_, prest, ?_⟩
    · refine pacc.imp_of_mem ?_
      intro a b ha hb rab'
      exact rel_core step hs src a b _ _ (h.wf a (macc a ha)).2 (h.wf b (macc b hb)).2 wsrc.2 rab' (ras a ha) (ras b hb)
        (became_gmap step src a) (became_gmap step src b)
        (h.far2 a (macc a ha) b (macc b hb) src msrc) (h.far2 a (macc a ha) src msrc b (macc b hb))
        (h.far2 b (macc b hb) a (macc a ha) src msrc) (h.far2 b (macc b hb) src msrc a (macc a ha))
        (h.far2 src msrc a (macc a ha) b (macc b hb)) (h.far2 src msrc b (macc b hb) a (macc a ha))
    · intro a' ha' b hb
      obtain ⟨a, ha, rfl⟩ := List.mem_map.mp ha'
      exact rel_core step hs src a b _ _ (h.wf a (macc a ha)).2 (h.wf b (mrest b hb)).2 wsrc.2 (rab a ha b hb) (ras a ha) (rel_symm (rsb b hb))
        (became_gmap step src a) (became_self step src b)
        (h.far2 a (macc a ha) b (mrest b hb) src msrc) (h.far2 a (macc a ha) src msrc b (mrest b hb))
        (h.far2 b (mrest b hb) a (macc a ha) src msrc) (h.far2 b (mrest b hb) src msrc a (macc a ha))
        (h.far2 src msrc a (macc a ha) b (mrest b hb)) (h.far2 src msrc b (mrest b hb) a (macc a ha))
  · -- nothing strictly between two ranges that are near
    intro x' hx' y' hy' z' hz' hxy hyz
    obtain ⟨x, ox⟩ := origin x' hx'
    obtain ⟨y, oy⟩ := origin y' hy'
    obtain ⟨z, oz⟩ := origin z' hz'
    obtain ⟨mx, bx, rx⟩ := ofam ox
    obtain ⟨my, by_, ry⟩ := ofam oy
    obtain ⟨mz, bz, rz⟩ := ofam oz
    have nxy : x ≠ y := by
      intro e; subst e
      have := same ox oy
      rw [this] at hxy; omega
    have nyz : y ≠ z := by
      intro e; subst e
      have := same oy oz
      rw [this] at hyz; omega
    have rxy := rel_of_mem h.rel mx my nxy
    have ryz := rel_of_mem h.rel my mz nyz
    have oxy := order_kept step src x y x' y' rxy bx by_ (h.far2 src msrc y my x mx) hxy
    have oyz := order_kept step src y z y' z' ryz by_ bz (h.far2 src msrc z mz y my) hyz
    exact far2_core step src x y z x' y' z' oxy oyz rx ry rz bx bz (h.far2 x mx y my z mz) (h.far2 x mx y my src msrc) (h.far2 src msrc y my z mz)

/-- seconds covered by some range of the list -/
def covered (F : List MTR) (t : Int) : Prop := ∃ x ∈ F, x.s ≤ t ∧ t ≤ x.e

/-- when something merged, the source range is gone and nothing else changed in what is covered -/
theorem cov_step {step : Int} (hs : 1 ≤ step) {fp : Nat} {acc rest : List MTR} {src : MTR}
    (h : Fam step fp (acc ++ src :: rest)) (fired : (acc.any fun m => near m src step) = true) (t : Int) :
    covered (acc.map (gmap step src) ++ rest) t ↔ covered (acc ++ src :: rest) t := by
  obtain ⟨ras, rsb, rab, pacc, prest⟩ := fam_split h
  constructor
  · rintro ⟨x', hx', h1, h2⟩
    rcases List.mem_append.mp hx' with hm | hr
    · obtain ⟨a, ha, rfl⟩ := List.mem_map.mp hm
      have ra := ras a ha
      unfold gmap at h1 h2
      cases hn : near a src step with
      | false =>
        simp only [hn] at h1 h2
        exact ⟨a, List.mem_append.mpr (Or.inl ha), h1, h2⟩
      | true =>
        simp only [hn, if_true] at h1 h2
        simp only [near, decide_eq_true_eq] at hn
        unfold Rel at ra
        by_cases hin : a.s ≤ t ∧ t ≤ a.e
        · exact ⟨a, List.mem_append.mpr (Or.inl ha), hin.1, hin.2⟩
        · exact ⟨src, by simp, by omega, by omega⟩
    · exact ⟨x', List.mem_append.mpr (Or.inr (List.mem_cons_of_mem _ hr)), h1, h2⟩
  · rintro ⟨x, hx, h1, h2⟩
    rcases List.mem_append.mp hx with ha | hsr
    · refine ⟨gmap step src x, List.mem_append.mpr (Or.inl (List.mem_map.mpr ⟨x, ha, rfl⟩)), ?_, ?_⟩ <;>
        (unfold gmap; split <;> (try simp only) <;> omega)
    · rcases List.mem_cons.mp hsr with rfl | hr
      · obtain ⟨a, ha, hn⟩ := List.any_eq_true.mp fired
        refine ⟨gmap step x a, List.mem_append.mpr (Or.inl (List.mem_map.mpr ⟨a, ha, rfl⟩)), ?_, ?_⟩ <;>
          (unfold gmap; simp only [hn, if_true]; omega)
      · exact ⟨x, List.mem_append.mpr (Or.inr hr), h1, h2⟩

/-- a pass in which nothing merges: no source range is near anything that came before it -/
def Quiet (step : Int) : List MTR → List MTR → Prop
  | _, [] => True
  | acc, src :: rest => (∀ a ∈ acc, near a src step = false) ∧ Quiet step (acc ++ [src]) rest

theorem mergePass_spec (step : Int) (hs : 1 ≤ step) (fp : Nat) (l : List MTR) :
    ∀ acc : List MTR, Fam step fp (acc ++ l) →
      Fam step fp (mergePass step l acc).1 ∧
      (∀ t, covered (mergePass step l acc).1 t ↔ covered (acc ++ l) t) ∧
      (mergePass step l acc).1.length ≤ (acc ++ l).length ∧
      ((mergePass step l acc).2 = true → (mergePass step l acc).1.length < (acc ++ l).length) ∧
      ((mergePass step l acc).2 = false → (mergePass step l acc).1 = acc ++ l) ∧
      ((mergePass step l acc).2 = false ↔ Quiet step acc l) := by
  induction l with
  | nil =>
    intro acc h
    have h' : Fam step fp acc := by simpa using h
    simp [mergePass, Quiet, h']
  | cons src rest ih =>
    intro acc h
    obtain ⟨ras, rsb, rab, pacc, prest⟩ := fam_split h
    have msrc : src ∈ acc ++ src :: rest := by simp
    have wsrc := h.wf src msrc
    have habs := absorb_eq step (by omega) src wsrc.2 acc (fun m hm => by
      have wm := h.wf m (List.mem_append.mpr (Or.inl hm))
      exact ⟨wm.1.trans wsrc.1.symm, wm.2, ras m hm⟩)
    cases hf : (acc.any fun m => near m src step) with
    | true =>
      have hfam := fam_step hs h
      obtain ⟨i1, i2, i3, i4, i5, i6⟩ := ih (acc.map (gmap step src)) hfam
      have e : mergePass step (src :: rest) acc = ((mergePass step rest (acc.map (gmap step src))).1, true) := by
        simp [mergePass, habs, hf]
      rw [e]
      refine ⟨i1, ?_, ?_, ?_, by simp, ?_⟩
      · intro t; rw [i2 t]; exact cov_step hs h hf t
      · simp only [List.length_append, List.length_map, List.length_cons] at *; omega
      · intro _; simp only [List.length_append, List.length_map, List.length_cons] at *; omega
      · simp only [Bool.true_eq_false, false_iff, Quiet]
        intro hq
        obtain ⟨a, ha, hn⟩ := List.any_eq_true.mp hf
        rw [hq.1 a ha] at hn; cases hn
    | false =>
      have hfam : Fam step fp ((acc ++ [src]) ++ rest) := by simpa using h
      obtain ⟨i1, i2, i3, i4, i5, i6⟩ := ih (acc ++ [src]) hfam
      have e : mergePass step (src :: rest) acc = mergePass step rest (acc ++ [src]) := by
        simp [mergePass, habs, hf]
      have ea : (acc ++ [src]) ++ rest = acc ++ src :: rest := by simp
      rw [e]
      rw [ea] at i2 i3 i4 i5
      refine ⟨i1, i2, i3, i4, i5, ?_⟩
      rw [i6]
      simp only [Quiet]
      constructor
      · intro hq
        refine ⟨?_, hq⟩
        intro a ha
        cases hn : near a src step with
        | false => rfl
        | true =>
          have : (acc.any fun m => near m src step) = true := List.any_eq_true.mpr ⟨a, ha, hn⟩
          rw [hf] at this; cases this
      · intro hq; exact hq.2

/-- no two ranges of the list are near: a fixpoint of MergeRanges -/
def NoNear (step : Int) (l : List MTR) : Prop := l.Pairwise fun a b => near a b step = false

theorem quiet_iff (step : Int) (l : List MTR) : ∀ acc, Quiet step acc l ↔ ((∀ a ∈ acc, ∀ b ∈ l, near a b step = false) ∧ NoNear step l) := by
  induction l with
  | nil => intro acc; simp [Quiet, NoNear]
  | cons src rest ih =>
    intro acc
    simp only [Quiet, ih, NoNear, List.pairwise_cons, List.mem_append, List.mem_cons, List.not_mem_nil, or_false]
    constructor
    · rintro ⟨h1, h2, h3⟩
      refine ⟨?_, ?_, h3⟩
      · intro a ha b hb
        rcases hb with rfl | hb
        · exact h1 a ha
        · exact h2 a (Or.inl ha) b hb
      · intro b hb; exact h2 src (Or.inr rfl) b hb
    · rintro ⟨h1, h2, h3⟩
      refine ⟨fun a ha => h1 a ha src (Or.inl rfl), ?_, h3⟩
      intro a ha b hb
      rcases ha with ha | rfl
      · exact h1 a ha b (Or.inr hb)
      · exact h2 b hb

theorem near_comm (a b : MTR) (step : Int) : near a b step = near b a step := by
  unfold near; congr 1; exact propext ⟨fun h => ⟨h.2, h.1⟩, fun h => ⟨h.2, h.1⟩⟩

theorem insertSorted_perm (r : MTR) (l : List MTR) : (insertSorted r l).Perm (r :: l) := by
  induction l with
  | nil => simp [insertSorted]
  | cons x rest ih =>
    simp only [insertSorted]
    split
    · exact List.Perm.refl _
    · exact (List.Perm.cons x ih).trans (List.Perm.swap r x rest)

theorem sortByStart_perm (l : List MTR) : (sortByStart l).Perm l := by
  induction l with
  | nil => simp [sortByStart]
  | cons x rest ih =>
    have : sortByStart (x :: rest) = insertSorted x (sortByStart rest) := rfl
    rw [this]
    exact (insertSorted_perm x _).trans (List.Perm.cons x ih)

theorem insertSorted_sorted (r : MTR) (l : List MTR) (h : l.Pairwise fun a b => a.s ≤ b.s) :
    (insertSorted r l).Pairwise fun a b => a.s ≤ b.s := by
  induction l with
  | nil => simp [insertSorted]
  | cons x rest ih =>
    simp only [insertSorted]
    rw [List.pairwise_cons] at h
    split
    · rename_i hle
      rw [List.pairwise_cons, List.pairwise_cons]
      refine ⟨?_, h⟩
      intro a ha
      rcases List.mem_cons.mp ha with rfl | ha'
      · exact hle
      · exact Int.le_trans hle (h.1 a ha')
    · rename_i hnle
      rw [List.pairwise_cons]
      refine ⟨?_, ih h.2⟩
      intro a ha
      have := (insertSorted_perm r rest).subset ha
      rcases List.mem_cons.mp this with rfl | ha'
      · omega
      · exact h.1 a ha'

theorem sortByStart_sorted (l : List MTR) : (sortByStart l).Pairwise fun a b => a.s ≤ b.s := by
  induction l with
  | nil => simp [sortByStart]
  | cons x rest ih =>
    have : sortByStart (x :: rest) = insertSorted x (sortByStart rest) := rfl
    rw [this]
    exact insertSorted_sorted x _ ih

theorem covered_perm {F G : List MTR} (p : F.Perm G) (t : Int) : covered F t ↔ covered G t :=
  ⟨fun ⟨x, hx, h⟩ => ⟨x, p.subset hx, h⟩, fun ⟨x, hx, h⟩ => ⟨x, p.symm.subset hx, h⟩⟩

theorem NoNear.perm {step : Int} {F G : List MTR} (h : NoNear step F) (p : F.Perm G) : NoNear step G :=
  List.Pairwise.perm h p (fun {x y} hxy => by rw [near_comm]; exact hxy)

/-- `y` is a fixpoint reached from `l`: family invariant kept, nothing near anything, same seconds covered -/
structure Good (step : Int) (fp : Nat) (l y : List MTR) : Prop where
  fam : Fam step fp y
  fix : NoNear step y
  cov : ∀ t, covered y t ↔ covered l t
  len : y.length ≤ l.length

theorem Good.refl {step : Int} {fp : Nat} {l : List MTR} (h : Fam step fp l) (hn : NoNear step l) : Good step fp l l :=
  ⟨h, hn, fun _ => Iff.rfl, Nat.le_refl _⟩

theorem Good.trans {step : Int} {fp : Nat} {l y z : List MTR} (h1 : Good step fp l y) (h2 : Good step fp y z) : Good step fp l z :=
  ⟨h2.fam, h2.fix, fun t => (h2.cov t).trans (h1.cov t), Nat.le_trans h2.len h1.len⟩

theorem Good.sort {step : Int} {fp : Nat} {l y : List MTR} (h : Good step fp l y) : Good step fp l (sortByStart y) :=
  have p := sortByStart_perm y
  ⟨h.fam.perm p.symm, h.fix.perm p.symm, fun t => (covered_perm p t).trans (h.cov t), by rw [p.length_eq]; exact h.len⟩

/-- a pass over a fixpoint changes nothing -/
theorem pass_fix (step : Int) (hs : 1 ≤ step) (fp : Nat) (l : List MTR) (h : Fam step fp l) :
    (mergePass step l []).2 = false ↔ NoNear step l := by
  obtain ⟨_, _, _, _, _, i6⟩ := mergePass_spec step hs fp l [] (by simpa using h)
  rw [i6, quiet_iff]; simp

def RecSpec (step : Int) (fp : Nat) (f : Nat) : Prop :=
  ∀ l, Fam step fp l → l.length ≤ f → Good step fp l (mergeRec step f l).1

theorem loop_of_rec (step : Int) (fp : Nat) (f : Nat) (hrec : RecSpec step fp f) :
    ∀ k l, Fam step fp l → l.length ≤ f → (0 < k ∨ NoNear step l) → Good step fp l (mergeLoop step f k l) := by
  intro k
  induction k with
  | zero =>
    intro l h hl hk
    rcases hk with hk | hk
    · omega
    · rw [mergeLoop]; exact Good.refl h hk
  | succ k ih =>
    intro l h hl _
    have g := hrec l h hl
    rw [mergeLoop]
    simp only
    split
    · exact g.trans (ih _ g.fam (Nat.le_trans g.len hl) (Or.inr g.fix))
    · exact g

theorem rec_spec (step : Int) (hs : 1 ≤ step) (fp : Nat) : ∀ f, RecSpec step fp f := by
  intro f
  induction f with
  | zero =>
    intro l h hl
    have : l = [] := List.length_eq_zero_iff.mp (Nat.le_zero.mp hl)
    subst this
    rw [mergeRec]
    exact Good.refl h (by simp [NoNear])
  | succ f ih =>
    intro l h hl
    have spec := mergePass_spec step hs fp l [] (by simpa using h)
    have pf := pass_fix step hs fp l h
    rw [mergeRec]
    rcases hp : mergePass step l [] with ⟨out, merged⟩
    rw [hp] at spec pf
    simp only [List.nil_append] at spec pf ⊢
    obtain ⟨i1, i2, i3, i4, i5, i6⟩ := spec
    cases merged with
    | true =>
      have hlen : out.length ≤ f := by have := i4 rfl; omega
      have gl := loop_of_rec step fp f ih (out.length + 1) out i1 hlen (Or.inl (by omega))
      have g : Good step fp l (mergeLoop step f (out.length + 1) out) :=
        ⟨gl.fam, gl.fix, fun t => (gl.cov t).trans (i2 t), Nat.le_trans gl.len i3⟩
      simpa using g.sort
    | false =>
      simpa using Good.refl h (pf.mp rfl)

/-- the canonical list of presence ranges of one series: sorted by start, every two more than a step apart -/
structure Canon (step : Int) (fp : Nat) (R : List MTR) : Prop where
  wf : ∀ x ∈ R, x.fp = fp ∧ x.s ≤ x.e
  sorted : R.Pairwise fun a b => a.s ≤ b.s
  apart : NoNear step R

theorem Canon.tail {step : Int} {fp : Nat} {a : MTR} {A : List MTR} (h : Canon step fp (a :: A)) : Canon step fp A :=
  ⟨fun x hx => h.wf x (List.mem_cons_of_mem _ hx), (List.pairwise_cons.mp h.sorted).2, (List.pairwise_cons.mp h.apart).2⟩

/-- everything behind the head starts more than a step after the head ends -/
theorem Canon.head_before {step : Int} (hs : 0 ≤ step) {fp : Nat} {a : MTR} {A : List MTR} (h : Canon step fp (a :: A)) :
    ∀ x ∈ A, a.e + step < x.s := by
  intro x hx
  have h1 := (List.pairwise_cons.mp h.sorted).1 x hx
  have h2 := (List.pairwise_cons.mp h.apart).1 x hx
  have wx := (h.wf x (List.mem_cons_of_mem _ hx)).2
  simp only [near, decide_eq_false_iff_not] at h2
  omega

theorem canon_head_start {step : Int} (hs : 0 ≤ step) {fp : Nat} {a b : MTR} {A B : List MTR}
    (h1 : Canon step fp (a :: A)) (h2 : Canon step fp (b :: B))
    (hc : ∀ t, covered (a :: A) t → covered (b :: B) t) : b.s ≤ a.s := by
  have wa := (h1.wf a (List.mem_cons_self ..)).2
  obtain ⟨y, hy, hy1, hy2⟩ := hc a.s ⟨a, List.mem_cons_self .., Int.le_refl _, wa⟩
  rcases List.mem_cons.mp hy with rfl | hy'
  · exact hy1
  · have := (List.pairwise_cons.mp h2.sorted).1 y hy'
    omega

theorem canon_head_end {step : Int} (hs : 1 ≤ step) {fp : Nat} {a b : MTR} {A B : List MTR}
    (h1 : Canon step fp (a :: A)) (h2 : Canon step fp (b :: B)) (hst : a.s = b.s)
    (hc : ∀ t, covered (b :: B) t → covered (a :: A) t) : b.e ≤ a.e := by
  have wa := (h1.wf a (List.mem_cons_self ..)).2
  have wb := (h2.wf b (List.mem_cons_self ..)).2
  by_cases hlt : a.e < b.e
  · obtain ⟨x, hx, hx1, hx2⟩ := hc (a.e + 1) ⟨b, List.mem_cons_self .., by omega, by omega⟩
    rcases List.mem_cons.mp hx with rfl | hx'
    · omega
    · have := h1.head_before (by omega) x hx'
      omega
  · omega

/-- a set of seconds has at most one canonical list of ranges -/
theorem canon_unique (step : Int) (hs : 1 ≤ step) (fp : Nat) :
    ∀ R₁ R₂ : List MTR, Canon step fp R₁ → Canon step fp R₂ → (∀ t, covered R₁ t ↔ covered R₂ t) → R₁ = R₂ := by
  intro R₁
  induction R₁ with
  | nil =>
    intro R₂ _ h2 hc
    cases R₂ with
    | nil => rfl
    | cons b B =>
      have wb := (h2.wf b (List.mem_cons_self ..)).2
      obtain ⟨x, hx, _⟩ := (hc b.s).mpr ⟨b, List.mem_cons_self .., Int.le_refl _, wb⟩
      simp at hx
  | cons a A ih =>
    intro R₂ h1 h2 hc
    cases R₂ with
    | nil =>
      have wa := (h1.wf a (List.mem_cons_self ..)).2
      obtain ⟨x, hx, _⟩ := (hc a.s).mp ⟨a, List.mem_cons_self .., Int.le_refl _, wa⟩
      simp at hx
    | cons b B =>
      have wa := h1.wf a (List.mem_cons_self ..)
      have wb := h2.wf b (List.mem_cons_self ..)
      have s1 := canon_head_start (by omega) h1 h2 (fun t => (hc t).mp)
      have s2 := canon_head_start (by omega) h2 h1 (fun t => (hc t).mpr)
      have hst : a.s = b.s := by omega
      have e1 := canon_head_end hs h1 h2 hst (fun t => (hc t).mpr)
      have e2 := canon_head_end hs h2 h1 hst.symm (fun t => (hc t).mp)
      have hab : a = b := by
        cases a; cases b; simp only [MTR.mk.injEq] at *
        exact ⟨wa.1.trans wb.1.symm, hst, by omega⟩
      subst hab
      have ha := h1.head_before (by omega)
      have hb := h2.head_before (by omega)
      have htail : ∀ t, covered A t ↔ covered B t := by
        intro t
        constructor
        · rintro ⟨x, hx, hx1, hx2⟩
          obtain ⟨y, hy, hy1, hy2⟩ := (hc t).mp ⟨x, List.mem_cons_of_mem _ hx, hx1, hx2⟩
          rcases List.mem_cons.mp hy with rfl | hy'
          · have := ha x hx; omega
          · exact ⟨y, hy', hy1, hy2⟩
        · rintro ⟨x, hx, hx1, hx2⟩
          obtain ⟨y, hy, hy1, hy2⟩ := (hc t).mpr ⟨x, List.mem_cons_of_mem _ hx, hx1, hx2⟩
          rcases List.mem_cons.mp hy with rfl | hy'
          · have := hb x hx; omega
          · exact ⟨y, hy', hy1, hy2⟩
      rw [ih B h1.tail h2.tail htail]

/-- **MergeRanges reaches the canonical list.** For every family of ranges of one series that keeps the invariant
`Fam` (what the slices of a range query hand over: see `fam_of_runs`), in whatever order the ranges come: the result is
sorted, no two ranges of it are within a step of each other, and it covers exactly the seconds the input covered. -/
theorem mergeSeries_canon (step : Int) (hs : 1 ≤ step) (fp : Nat) (l : List MTR) (h : Fam step fp l) :
    Canon step fp (mergeSeries step l) ∧ ∀ t, covered (mergeSeries step l) t ↔ covered l t := by
  have g := (rec_spec step hs fp (l.length + 1) l h (Nat.le_succ _)).sort
  unfold mergeSeries
  exact ⟨⟨g.fam.wf, sortByStart_sorted _, g.fix⟩, g.cov⟩

/-- **The result does not depend on the order in which the ranges arrive.** -/
theorem merge_order_independent (step : Int) (hs : 1 ≤ step) (fp : Nat) (l₁ l₂ : List MTR) (h : Fam step fp l₁)
    (p : l₁.Perm l₂) : mergeSeries step l₁ = mergeSeries step l₂ := by
  obtain ⟨c1, v1⟩ := mergeSeries_canon step hs fp l₁ h
  obtain ⟨c2, v2⟩ := mergeSeries_canon step hs fp l₂ (h.perm p)
  exact canon_unique step hs fp _ _ c1 c2 (fun t => (v1 t).trans ((covered_perm p t).trans (v2 t).symm))

/-- **Exactly the canonical ranges.** Whatever canonical list covers the same seconds as the input (the runs of the
unsliced evaluation, for one) is what MergeRanges returns. -/
theorem merge_is_canonical (step : Int) (hs : 1 ≤ step) (fp : Nat) (l R : List MTR) (h : Fam step fp l)
    (hR : Canon step fp R) (hc : ∀ t, covered R t ↔ covered l t) : mergeSeries step l = R := by
  obtain ⟨c1, v1⟩ := mergeSeries_canon step hs fp l h
  exact canon_unique step hs fp _ _ c1 hR (fun t => (v1 t).trans (hc t).symm)

end Pint.Props.C13
