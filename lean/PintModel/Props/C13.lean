/-
  C13 — slicing a range query is invisible in its result.
  Proved here: the pairwise behaviour of `Overlaps` on the class of ranges that slices produce
  (adjacent ⇒ hull in both argument orders, separated ⇒ no merge in both orders, any merge is the
  hull of two connected ranges), the per-slice folding of samples into maximal runs, and the slice
  plan facts. The order-independence of the `MergeRanges` fixpoint over whole lists is NOT proved
  (see `C13_statement` and DESIGN.md); it is covered by the correspondence and end-to-end runs.
-/
import PintModel.Model.Range
import PintModel.Spec.Presence
set_option linter.unusedSimpArgs false
namespace Pint.Props.C13
open Pint.Range Pint.Spec.Presence

/-- two ranges of one series are *adjacent*: the second starts one second after the first ends
    (what a run crossing a slice boundary looks like after `ExpandRangesEnd`) -/
def Adjacent (a b : MTR) : Prop := a.fp = b.fp ∧ a.s ≤ a.e ∧ b.s ≤ b.e ∧ b.s = a.e + 1
/-- two ranges of one series are *separated*: more than a step lies between them (a missing sample) -/
def Separated (a b : MTR) (step : Int) : Prop := a.s ≤ a.e ∧ b.s ≤ b.e ∧ a.e + step < b.s

theorem iabs_le (x k : Int) : iabs x ≤ k ↔ (-k ≤ x ∧ x ≤ k) := by
  unfold iabs; split <;> omega

/-- consecutive samples merge across a slice boundary: adjacent ranges merge into their hull,
    whichever of the two arrived first -/
theorem overlaps_adjacent (a b : MTR) (step : Int) (hs : 1 ≤ step) (h : Adjacent a b) :
    overlaps a b step = some ⟨a.s, b.e⟩ ∧ overlaps b a step = some ⟨a.s, b.e⟩ := by
  obtain ⟨hfp, ha, hb, hab⟩ := h
  constructor
  · unfold overlaps
    simp only [hfp, ne_eq, not_true_eq_false, if_false, iabs_le]
    split
    · rename_i h1
      have m1 : min a.s b.s = a.s := by omega
      have m2 : max a.e b.e = b.e := by omega
      rw [m1, m2]
    · split
      · rfl
      · split
        · omega
        · split
          · rfl
          · rename_i h4
            exfalso; apply h4; omega
  · unfold overlaps
    simp only [hfp, ne_eq, not_true_eq_false, if_false, iabs_le]
    split
    · rename_i h1
      have m1 : min b.s a.s = a.s := by omega
      have m2 : max b.e a.e = b.e := by omega
      rw [m1, m2]
    · split
      · omega
      · split
        · omega
        · split
          · omega
          · split
            · rfl
            · rename_i h5
              exfalso; apply h5; omega

/-- a single missing sample always produces a gap: separated ranges are never merged, in either order -/
theorem overlaps_separated (a b : MTR) (step : Int) (hs : 0 ≤ step) (h : Separated a b step) :
    overlaps a b step = none ∧ overlaps b a step = none := by
  obtain ⟨ha, hb, hab⟩ := h
  constructor <;>
  · unfold overlaps
    simp only [iabs_le]
    repeat' split
    all_goals first | rfl | (exfalso; omega)

/-- whenever `Overlaps` merges, the result is exactly the hull of the two ranges and the two ranges
    are connected (overlapping, or at most `step` apart): merging never bridges a gap of more than a
    step and never invents or loses coverage -/
theorem overlaps_some_is_hull (a b : MTR) (step : Int) (hs : 0 ≤ step) (ha : a.s ≤ a.e) (hb : b.s ≤ b.e) (c : TR)
    (h : overlaps a b step = some c) :
    c.s = min a.s b.s ∧ c.e = max a.e b.e ∧ a.s ≤ b.e + step ∧ b.s ≤ a.e + step := by
  unfold overlaps at h
  simp only [iabs_le] at h
  repeat' split at h
  all_goals first
    | (cases h; done)
    | (cases h; (try dsimp only); refine ⟨by omega, by omega, by omega, by omega⟩)

/-! ### per-slice folding of samples into ranges -/

def mk (fp : Nat) (p : Int × Int) : MTR := ⟨fp, p.1, p.2⟩
def render (fp : Nat) (acc : List (Int × Int)) : List MTR := acc.reverse.map (mk fp)

/-- earlier ranges that ended more than a step before `t` are skipped by `appendSample` -/
theorem appendSample_skip (step : Int) (fp : Nat) (t : Int) (init rest : List MTR)
    (h : ∀ r ∈ init, r.fp = fp → r.e + step < t ∧ r.s < t) :
    appendSample step fp t (init ++ rest) = init ++ appendSample step fp t rest := by
  induction init with
  | nil => rfl
  | cons r init ih =>
    have hr := h r (by simp)
    have ih' := ih (fun x hx => h x (by simp [hx]))
    simp only [List.cons_append, appendSample]
    by_cases hfp : r.fp = fp
    · obtain ⟨h1, h2⟩ := hr hfp
      have c1 : ¬ (r.s - step ≤ t ∧ t ≤ r.s) := by omega
      have c2 : ¬ (r.s ≤ t ∧ t ≤ r.e + step) := by omega
      simp [hfp, c1, c2, ih']
    · simp [hfp, ih']

/-- the last range either takes the sample (at most a step later) or a new range is opened -/
theorem appendSample_last (step : Int) (fp : Nat) (t a b : Int) (hab : a ≤ b) (hbt : b < t) :
    appendSample step fp t [⟨fp, a, b⟩] =
      if t ≤ b + step then [⟨fp, a, t⟩] else [⟨fp, a, b⟩, ⟨fp, t, t⟩] := by
  have c1 : ¬ (a - step ≤ t ∧ t ≤ a) := by omega
  simp only [appendSample, ne_eq, not_true_eq_false, if_false, c1]
  by_cases h : t ≤ b + step
  · have : a ≤ t ∧ t ≤ b + step := ⟨by omega, h⟩
    simp [this, h]
  · have : ¬ (a ≤ t ∧ t ≤ b + step) := by omega
    simp [this, h]

/-- invariant of the fold: runs are well-formed and every older run ended more than a step before the
    current one started -/
def Inv (step : Int) : List (Int × Int) → Prop
  | [] => True
  | (a, b) :: rest => a ≤ b ∧ ∀ r ∈ rest, r.1 ≤ r.2 ∧ r.2 + step < a

theorem inv_addRun (step : Int) (hs : 0 ≤ step) (acc : List (Int × Int)) (t : Int) (hi : Inv step acc)
    (ht : ∀ a b rest, acc = (a, b) :: rest → b < t) : Inv step (addRun step acc t) := by
  cases acc with
  | nil => simp [addRun, Inv]
  | cons p rest =>
    obtain ⟨a, b⟩ := p
    obtain ⟨hab, hrest⟩ := hi
    have hbt := ht a b rest rfl
    simp only [addRun]
    split
    · exact ⟨by omega, hrest⟩
    · refine ⟨by omega, ?_⟩
      intro r hr
      cases List.mem_cons.1 hr with
      | inl h => subst h; exact ⟨hab, by omega⟩
      | inr h => have := hrest r h; exact ⟨this.1, by omega⟩

/-- one sample: the code's step on the rendered ranges is the spec's step on the runs -/
theorem appendSample_render (step : Int) (hs : 0 ≤ step) (fp : Nat) (acc : List (Int × Int)) (t : Int)
    (hi : Inv step acc) (ht : ∀ a b rest, acc = (a, b) :: rest → b < t) :
    appendSample step fp t (render fp acc) = render fp (addRun step acc t) := by
  cases acc with
  | nil => simp [render, addRun, appendSample, mk]
  | cons p rest =>
    obtain ⟨a, b⟩ := p
    obtain ⟨hab, hrest⟩ := hi
    have hbt := ht a b rest rfl
    have hskip := appendSample_skip step fp t (rest.reverse.map (mk fp)) [⟨fp, a, b⟩] (by
      intro r hr _
      simp only [List.mem_map, List.mem_reverse] at hr
      obtain ⟨q, hq, rfl⟩ := hr
      have := hrest q hq
      simp only [mk]
      omega)
    have hlast := appendSample_last step fp t a b hab hbt
    simp only [render, List.reverse_cons, List.map_append, List.map_cons, List.map_nil, mk] at *
    rw [hskip, hlast]
    simp only [addRun]
    split <;> simp [mk]

/-- per slice, samples arriving in ascending order are folded into exactly the maximal runs of
    samples at most a step apart (`AppendSampleToRanges` = `Spec.Presence.runs`), for any number of
    samples and any gaps -/
theorem append_is_runs_from (step : Int) (hs : 0 ≤ step) (fp : Nat) (ts : List Int) :
    ∀ (acc : List (Int × Int)), Inv step acc →
      (∀ a b rest, acc = (a, b) :: rest → Asc b ts) → (acc = [] → ∃ lo, Asc lo ts) →
      appendSamples step fp ts (render fp acc) = render fp (ts.foldl (addRun step) acc) := by
  induction ts with
  | nil => intro acc _ _ _; simp [appendSamples]
  | cons t ts ih =>
    intro acc hi hasc hnil
    have ht : ∀ a b rest, acc = (a, b) :: rest → b < t := fun a b rest h => (hasc a b rest h).1
    simp only [appendSamples, List.foldl_cons]
    rw [appendSample_render step hs fp acc t hi ht]
    have hi' := inv_addRun step hs acc t hi ht
    have hasc' : ∀ a b rest, addRun step acc t = (a, b) :: rest → Asc b ts := by
      intro a b rest h
      have htail : Asc t ts := by
        cases acc with
        | nil => obtain ⟨lo, hlo⟩ := hnil rfl; exact hlo.2
        | cons p r => obtain ⟨a0, b0⟩ := p; exact (hasc a0 b0 r rfl).2
      cases acc with
      | nil => simp only [addRun, List.cons.injEq, Prod.mk.injEq] at h; obtain ⟨⟨_, hb⟩, _⟩ := h; subst hb; exact htail
      | cons p r =>
        obtain ⟨a0, b0⟩ := p
        simp only [addRun] at h
        split at h
        · simp only [List.cons.injEq, Prod.mk.injEq] at h; obtain ⟨⟨_, hb⟩, _⟩ := h; subst hb; exact htail
        · simp only [List.cons.injEq, Prod.mk.injEq] at h; obtain ⟨⟨_, hb⟩, _⟩ := h; subst hb; exact htail
    have := ih (addRun step acc t) hi' hasc' (by
      intro h
      cases acc with
      | nil => simp [addRun] at h
      | cons p r => obtain ⟨a0, b0⟩ := p; simp only [addRun] at h; split at h <;> simp at h)
    simpa [appendSamples] using this

theorem append_is_runs (step : Int) (hs : 0 ≤ step) (fp : Nat) (lo : Int) (ts : List Int) (h : Asc lo ts) :
    appendSamples step fp ts [] = (runs step ts).map (mk fp) := by
  have := append_is_runs_from step hs fp ts [] (by simp [Inv]) (by intro a b rest h; cases h) (fun _ => ⟨lo, h⟩)
  simpa [render, runs] using this

/-! ### the slice plan -/

/-- consecutive slices: each starts one second after the previous one ends -/
def Contig : List TR → Prop
  | [] => True
  | [_] => True
  | x :: y :: r => y.s = x.e + 1 ∧ Contig (y :: r)

/-- untrimmed slices: each starts where the previous one ends, `size` after its own start -/
def ChainFrom (size : Int) : Int → List TR → Prop
  | _, [] => True
  | k, [x] => x.s = k
  | k, x :: y :: r => x.s = k ∧ x.e = k + size ∧ ChainFrom size (k + size) (y :: r)

theorem sliceLoop_chain (size end_ : Int) (fuel : Nat) (k : Int) : ChainFrom size k (sliceLoop fuel k end_ size) := by
  induction fuel generalizing k with
  | zero => simp [sliceLoop, ChainFrom]
  | succ f ih =>
    simp only [sliceLoop]
    split
    · have ihk := ih (k + size)
      cases hrest : sliceLoop f (k + size) end_ size with
      | nil => simp [ChainFrom]
      | cons y r =>
        rw [hrest] at ihk
        refine ⟨rfl, ?_, ihk⟩
        -- the next iteration ran, so k + size < end_ and this slice was not clipped
        cases f with
        | zero => simp [sliceLoop] at hrest
        | succ f' =>
          simp only [sliceLoop] at hrest
          split at hrest
          · rename_i hlt; simp only []; split <;> omega
          · cases hrest
    · simp [ChainFrom]

theorem trimEnds_contig (size : Int) (k : Int) (l : List TR) (h : ChainFrom size k l) : Contig (trimEnds l) := by
  induction l generalizing k with
  | nil => simp [trimEnds, Contig]
  | cons x rest ih =>
    cases rest with
    | nil => simp [trimEnds, Contig]
    | cons y r =>
      obtain ⟨hx, hxe, hrest⟩ := h
      have ihr := ih (k + size) hrest
      have hy : y.s = k + size := by
        cases r with
        | nil => exact hrest
        | cons z r' => exact hrest.1
      cases r with
      | nil => simp only [trimEnds, Contig]; exact ⟨by omega, trivial⟩
      | cons z r' =>
        simp only [trimEnds] at ihr ⊢
        refine ⟨by (try dsimp only); omega, ihr⟩

/-- the slices `sliceRange` produces are consecutive with one-second seams, for every start, end,
    resolution and slice size (whenever it terminates) -/
theorem slices_contiguous (start end_ res size : Int) (l : List TR)
    (h : sliceRange start end_ res size = some l) : Contig l := by
  unfold sliceRange at h
  split at h
  · cases h; simp [Contig]
  · split at h
    · cases h
    · rename_i hres hsize
      simp only [Option.some.injEq] at h
      subst h
      by_cases hr : roundTime start size > start
      · simp only [hr, if_true]
        apply trimEnds_contig size (roundTime start size - size)
        have hc := sliceLoop_chain size end_ ((end_ - roundTime start size) / size + 2).toNat (roundTime start size)
        cases hl : sliceLoop ((end_ - roundTime start size) / size + 2).toNat (roundTime start size) end_ size with
        | nil => simp [ChainFrom]
        | cons y r =>
          rw [hl] at hc
          have hy : y.s = roundTime start size := by
            cases r with
            | nil => exact hc
            | cons z r' => exact hc.1
          -- the loop ran at least once, so rstart < end_ and the first slice was not clipped
          have hlt : roundTime start size < end_ := by
            cases hf : ((end_ - roundTime start size) / size + 2).toNat with
            | zero => rw [hf] at hl; simp [sliceLoop] at hl
            | succ f =>
              rw [hf] at hl
              simp only [sliceLoop] at hl
              split at hl
              · assumption
              · cases hl
          refine ⟨rfl, ?_, ?_⟩
          · simp only []; split <;> omega
          · have : roundTime start size - size + size = roundTime start size := by omega
            rw [this]; exact hc
      · simp only [hr, if_false, List.nil_append]
        exact trimEnds_contig size _ _ (sliceLoop_chain size end_ _ _)

theorem sliceLoop_last (size end_ : Int) (hsz : 0 < size) (fuel : Nat) (k : Int) (hk : k < end_)
    (hf : end_ - k ≤ fuel * size) :
    ((sliceLoop fuel k end_ size).getLast?).map (·.e) = some end_ := by
  induction fuel generalizing k with
  | zero => simp at hf; omega
  | succ f ih =>
    simp only [sliceLoop, hk, if_true]
    by_cases hnext : k + size < end_
    · have hf' : end_ - (k + size) ≤ f * size := by
        have : ((f + 1 : Nat) : Int) * size = f * size + size := by
          rw [Int.natCast_add]; simp [Int.add_mul]
        omega
      have := ih (k + size) hnext hf'
      cases hl : sliceLoop f (k + size) end_ size with
      | nil => rw [hl] at this; simp at this
      | cons y r =>
        rw [hl] at this
        simpa [List.getLast?_cons_cons] using this
    · have hnil : sliceLoop f (k + size) end_ size = [] := by
        cases f with
        | zero => rfl
        | succ f' => simp [sliceLoop, hnext]
      rw [hnil]
      simp only [List.getLast?_singleton, Option.map_some, Option.some.injEq]
      split <;> omega

theorem trimEnds_last (l : List TR) : ((trimEnds l).getLast?).map (·.e) = (l.getLast?).map (·.e) := by
  induction l with
  | nil => rfl
  | cons x rest ih =>
    cases rest with
    | nil => rfl
    | cons y r =>
      simp only [trimEnds]
      cases hr : trimEnds (y :: r) with
      | nil => cases r <;> simp [trimEnds] at hr
      | cons z r' =>
        rw [hr] at ih
        simpa [List.getLast?_cons_cons] using ih

/-- the last slice ends exactly at `end`: the plan reaches the end of the requested range -/
theorem slices_reach_end (start end_ res size : Int) (hres : 0 ≤ res) (l : List TR)
    (h : sliceRange start end_ res size = some l) : (l.getLast?).map (·.e) = some end_ := by
  unfold sliceRange at h
  split at h
  · cases h; rfl
  · split at h
    · cases h
    · rename_i hgap hsize
      have hsz : 0 < size := by omega
      simp only [Option.some.injEq] at h
      subst h
      rw [trimEnds_last]
      by_cases hlt : roundTime start size < end_
      · -- the loop runs; its last slice ends at end_
        have hfuel : end_ - roundTime start size ≤ (((end_ - roundTime start size) / size + 2).toNat : Int) * size := by
          have hq := Int.mul_ediv_add_emod (end_ - roundTime start size) size
          have hm := Int.emod_lt_of_pos (end_ - roundTime start size) hsz
          have hm0 := Int.emod_nonneg (end_ - roundTime start size) (by omega : size ≠ 0)
          have hqn : 0 ≤ (end_ - roundTime start size) / size := Int.ediv_nonneg (by omega) (by omega)
          have : (((end_ - roundTime start size) / size + 2).toNat : Int) = (end_ - roundTime start size) / size + 2 := by
            rw [Int.toNat_of_nonneg]; omega
          rw [this, Int.add_mul]
          have : size * ((end_ - roundTime start size) / size) = (end_ - roundTime start size) / size * size := Int.mul_comm _ _
          omega
        have hlast := sliceLoop_last size end_ hsz _ (roundTime start size) hlt hfuel
        cases hl : sliceLoop ((end_ - roundTime start size) / size + 2).toNat (roundTime start size) end_ size with
        | nil => rw [hl] at hlast; simp at hlast
        | cons y r =>
          rw [hl] at hlast
          rw [List.getLast?_append]
          cases hg : (y :: r).getLast? with
          | none => rw [hg] at hlast; simp at hlast
          | some z => rw [hg] at hlast; simpa using hlast
      · -- the loop does not run: only the first (clipped) slice exists
        have hnil : sliceLoop ((end_ - roundTime start size) / size + 2).toNat (roundTime start size) end_ size = [] := by
          cases ((end_ - roundTime start size) / size + 2).toNat with
          | zero => rfl
          | succ f => simp [sliceLoop, hlt]
        rw [hnil, List.append_nil]
        have hr : roundTime start size > start := by omega
        simp only [hr, if_true, List.getLast?_singleton, Option.map_some, Option.some.injEq]
        split <;> omega

/-- `(2h).Round(step)` is zero exactly when the step exceeds four hours (the reason `RangeQuery`
    falls back to the step itself as slice size) -/
theorem slice_size_zero_iff (step : Int) (hs : 0 < step) : roundDur 7200 step = 0 ↔ 14400 < step := by
  unfold roundDur
  have h0 : ¬ step ≤ 0 := by omega
  simp only [h0, if_false]
  have hmod := Int.emod_lt_of_pos 7200 hs
  have hmod0 := Int.emod_nonneg 7200 (by omega : step ≠ 0)
  by_cases hbig : 7200 < step
  · have he : (7200 : Int) % step = 7200 := Int.emod_eq_of_lt (by omega) hbig
    rw [he]
    split <;> omega
  · split <;> omega

/-- the slice size `RangeQuery` uses is positive for every positive step, so slicing terminates -/
theorem sliceSize_pos (step : Int) (hs : 0 < step) : 0 < sliceSize step := by
  unfold sliceSize
  simp only []
  split
  · exact hs
  · omega

/-- slicing always terminates with a plan: `plan` never answers `none` for a positive step -/
theorem plan_terminates (start end_ lookback step : Int) (hs : 0 < step) :
    ∃ l, plan start end_ lookback step = some l := by
  unfold plan
  simp only []
  split
  · exact ⟨_, rfl⟩
  · unfold sliceRange
    have := sliceSize_pos step hs
    split
    · exact ⟨_, rfl⟩
    · have h0 : ¬ sliceSize step ≤ 0 := by omega
      simp only [h0, if_false]
      exact ⟨_, rfl⟩

theorem sliceRange_none_of_zero (start end_ res : Int) (h : res < end_ - start) :
    sliceRange start end_ res 0 = none := by
  unfold sliceRange
  have : ¬ end_ - start ≤ res := by omega
  simp [this]

/-- the slice size pint chooses is a whole number of steps, so the per-slice sample grids line up
    into one global grid -/
theorem slice_size_multiple_of_step (step : Int) (hs : 0 < step) : sliceSize step % step = 0 := by
  unfold sliceSize
  simp only []
  split
  · exact Int.emod_self
  unfold roundDur
  have h0 : ¬ step ≤ 0 := by omega
  simp only [h0, if_false]
  split
  · rw [Int.sub_emod, Int.emod_emod_of_dvd _ (Int.dvd_refl step)]; simp
  · have : (7200 + step - 7200 % step) = step + (7200 - 7200 % step) := by omega
    rw [this, Int.add_emod, Int.emod_self, Int.sub_emod, Int.emod_emod_of_dvd _ (Int.dvd_refl step)]; simp

/-! ### two ranges through the whole merge (either arrival order) -/

theorem mergeRec_single (step : Int) (f : Nat) (x : MTR) : mergeRec step f [x] = ([x], false) := by
  cases f with
  | zero => simp [mergeRec]
  | succ f => simp [mergeRec, mergePass, absorb]

/-- a run that crosses a slice boundary comes back as ONE range, whichever slice answered first -/
theorem merge_two_adjacent (a b : MTR) (step : Int) (hs : 1 ≤ step) (h : Adjacent a b) :
    mergeSeries step [a, b] = [⟨a.fp, a.s, b.e⟩] ∧ mergeSeries step [b, a] = [⟨a.fp, a.s, b.e⟩] := by
  obtain ⟨h1, h2⟩ := overlaps_adjacent a b step hs h
  have hfp := h.1
  constructor
  · simp [mergeSeries, mergeRec, mergePass, absorb, h1, mergeLoop, mergeRec_single, sortByStart, insertSorted]
  · simp [mergeSeries, mergeRec, mergePass, absorb, h2, mergeLoop, mergeRec_single, sortByStart, insertSorted, hfp]

/-- a missing sample keeps two ranges apart, whichever slice answered first; the result is sorted -/
theorem merge_two_separated (a b : MTR) (step : Int) (hs : 0 ≤ step) (h : Separated a b step) :
    mergeSeries step [a, b] = [a, b] ∧ mergeSeries step [b, a] = [a, b] := by
  obtain ⟨h1, h2⟩ := overlaps_separated a b step hs h
  obtain ⟨ha, hb, hab⟩ := h
  have hlt : ¬ b.s ≤ a.s := by omega
  have hle : a.s ≤ b.s := by omega
  constructor
  · simp [mergeSeries, mergeRec, mergePass, absorb, h1, sortByStart, insertSorted, hle]
  · simp [mergeSeries, mergeRec, mergePass, absorb, h2, sortByStart, insertSorted, hlt]

/-! ### the full statement (NOT proved: order-independence of the MergeRanges fixpoint over whole lists) -/

/-- sample instants of one slice `[s, e]` on its own grid -/
def gridSamples (present : Int → Bool) (s e step : Int) : List Int :=
  (List.range ((e - s) / step + 1).toNat).filterMap fun (k : Nat) =>
    let t : Int := s + (k : Int) * step
    if present t then some t else none

/-- what one slice answers for one series, after `ExpandRangesEnd` -/
def sliceRanges (step : Int) (fp : Nat) (present : Int → Bool) (sl : TR) : List MTR :=
  expandEnds step (appendSamples step fp (gridSamples present sl.s sl.e step) [])

/-- C13 at full strength: for every start/end/step (step ≥ 1s), every presence pattern and every
    arrival order of the slice answers, merging gives exactly the runs of one unsliced evaluation on
    the same grid. -/
def C13_statement : Prop :=
  ∀ (start end_ lookback step : Int) (fp : Nat) (present : Int → Bool) (slices arrival : List TR),
    1 ≤ step → start ≤ end_ →
    plan start end_ lookback step = some slices → arrival.Perm slices →
    mergeSeries step (arrival.flatMap (sliceRanges step fp present)) =
      expandEnds step ((runs step (gridSamples present (slices.headD ⟨start, end_⟩).s end_ step)).map (mk fp))

/-- non-vacuity / sanity: a gap of two steps splits, one step does not -/
theorem runs_demo : runs 60 [0, 60, 120, 240, 300] = [(0, 120), (240, 300)] ∧ Asc (-1) [0, 60, 120, 240, 300] := by
  refine ⟨by decide, ?_⟩
  simp [Asc]

end Pint.Props.C13
