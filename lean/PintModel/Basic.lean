def hello := "world"
