import PintModel.Model.Reader
import PintModel.Spec.Exclude
namespace Pint.Reader
open Pint.Comments Pint.Spec.Exclude

/-- canonical form of a masked line: blank runs in front of nothing / in front of a comment are
    not significant (YAML ignores them), everything else is compared verbatim. -/
def stripBlank : List Char → List Char
  | [] => []
  | c :: cs => if c = ' ' then stripBlank cs else c :: cs

def canonLine (m : List Char) : List Char :=
  match stripBlank m with
  | [] => []
  | c :: cs => if c = '#' then c :: cs else m

structure COut where
  masked : List Char
  cmts : List (CType × Val × List Char)
  diagLines : List Nat
  deriving DecidableEq, Repr

def canon (o : Out) : COut :=
  ⟨canonLine o.masked, o.fileComments.map (fun c => (c.ctype, c.val, c.err)), o.diags.map (·.line)⟩

theorem stripBlank_spaces_append (n : Nat) (t : List Char) : stripBlank (spaces n ++ t) = stripBlank t := by
  induction n with
  | zero => simp [spaces]
  | succ n ih => simp [spaces, List.replicate_succ, stripBlank] at *; exact ih

theorem stripBlank_spaces (n : Nat) : stripBlank (spaces n) = [] := by
  have := stripBlank_spaces_append n []
  simpa [stripBlank] using this

theorem canonLine_spaces (n : Nat) : canonLine (spaces n) = [] := by
  simp [canonLine, stripBlank_spaces]

theorem canonLine_spaces_hash (n : Nat) (t : List Char) : canonLine (spaces n ++ '#' :: t) = '#' :: t := by
  simp [canonLine, stripBlank_spaces_append, stripBlank]

theorem spaces_add (a b : Nat) : spaces a ++ spaces b = spaces (a + b) := by
  simp [spaces]

theorem byteLen_cons (c : Char) (l : List Char) : byteLen (c :: l) = c.utf8Size + byteLen l := by
  simp [byteLen]

theorem byteLen_append (a b : List Char) : byteLen (a ++ b) = byteLen a + byteLen b := by
  simp [byteLen]

theorem blankFrom_true (off i : Nat) (l : List Char) : blankFrom true off i l = spaces (byteLen l) := by
  induction l generalizing i with
  | nil => simp [blankFrom, byteLen, spaces]
  | cons c cs ih => simp [blankFrom, ih, byteLen_cons, spaces_add]

theorem blankFrom_lt (off i : Nat) (l : List Char) (h : i + byteLen l ≤ off) (hl : ∀ c ∈ l, 0 < c.utf8Size) :
    blankFrom false off i l = spaces (byteLen l) := by
  induction l generalizing i with
  | nil => simp [blankFrom, byteLen, spaces]
  | cons c cs ih =>
    have hc : 0 < c.utf8Size := hl c (by simp)
    rw [byteLen_cons] at h
    have : i < off := by omega
    simp [blankFrom, this, byteLen_cons]
    rw [ih (i + c.utf8Size) (by omega) (fun x hx => hl x (by simp [hx]))]
    exact spaces_add _ _

theorem utf8Size_pos (c : Char) : 0 < c.utf8Size := Char.utf8Size_pos c

theorem blankFrom_lt' (off i : Nat) (l : List Char) (h : i + byteLen l ≤ off) :
    blankFrom false off i l = spaces (byteLen l) :=
  blankFrom_lt off i l h (fun c _ => utf8Size_pos c)

theorem blankFrom_ge (off i : Nat) (l : List Char) (h : off ≤ i) : blankFrom false off i l = l := by
  induction l generalizing i with
  | nil => simp [blankFrom]
  | cons c cs ih =>
    have : ¬ i < off := by omega
    simp [blankFrom, this]
    exact ih _ (by omega)

theorem blankFrom_append (b : Bool) (off i : Nat) (p t : List Char) :
    blankFrom b off i (p ++ t) = blankFrom b off i p ++ blankFrom b off (i + byteLen p) t := by
  induction p generalizing i with
  | nil => simp [blankFrom, byteLen]
  | cons c cs ih => simp [blankFrom, ih, byteLen_cons, Nat.add_assoc]

theorem emptyLine_none (b : Bool) (l : List Char) : emptyLine b none l = spaces (byteLen l) := by
  cases b with
  | true => simp [emptyLine, blankFrom_true]
  | false => simp only [emptyLine]; exact blankFrom_lt' _ _ _ (by omega)

theorem emptyLine_own (c : Comment) (p t : List Char) (h : c.offset = byteLen p) :
    emptyLine false (some c) (p ++ '#' :: t) = spaces (byteLen p) ++ '#' :: t := by
  simp only [emptyLine, h, blankFrom_append]
  rw [blankFrom_lt' _ _ _ (by omega), blankFrom_ge _ _ _ (by omega)]

end Pint.Reader
