import PintModel.Model.Enable
namespace Pint.Enable

/-- the selection loop with an abstract per-instance decision (`dup`, instance) -/
def selectGen (dec : Bool → Inst → Bool) : List Inst → List Inst → List Inst
  | [], acc => acc
  | i :: rest, acc =>
    if dec ((acc.map (·.str)).contains i.str) i then selectGen dec rest (acc ++ [i]) else selectGen dec rest acc

theorem selectFrom_eq_gen (re : Re) (cmd : String) (enabled disabled : List String) (rules : List CfgRule) (e : Entry)
    (rest acc : List Inst) :
    selectFrom re cmd enabled disabled rules e rest acc =
      selectGen (fun dup i => isMatch re cmd e i.ignore i.match_ && instEnabled re cmd enabled disabled rules dup e i) rest acc := by
  induction rest generalizing acc with
  | nil => simp [selectFrom, selectGen]
  | cons i rest ih => simp only [selectFrom, selectGen, ih]

/-- Generic filter law: if decision B agrees with A on instances that are not dropped, rejects the
    dropped ones, and instances with equal `String()` are dropped together, then selecting with B
    is selecting with A and filtering the dropped instances out (the duplicate test cannot tell). -/
theorem selectGen_filter (decA decB : Bool → Inst → Bool) (drop : Inst → Bool) (all : List Inst)
    (hkeep : ∀ i ∈ all, drop i = false → ∀ b, decB b i = decA b i)
    (hdrop : ∀ i ∈ all, drop i = true → ∀ b, decB b i = false)
    (hstr : ∀ i ∈ all, ∀ j ∈ all, i.str = j.str → drop i = drop j) :
    ∀ (rest acc : List Inst), (∀ i ∈ rest, i ∈ all) → (∀ i ∈ acc, i ∈ all) →
      selectGen decB rest (acc.filter fun i => !drop i) = (selectGen decA rest acc).filter fun i => !drop i := by
  intro rest
  induction rest with
  | nil => intro acc _ _; simp [selectGen]
  | cons i rest ih =>
    intro acc hrest hacc
    have hi : i ∈ all := hrest i (by simp)
    have hrest' : ∀ j ∈ rest, j ∈ all := fun j hj => hrest j (by simp [hj])
    have hacc' : ∀ j ∈ acc ++ [i], j ∈ all := by
      intro j hj
      cases List.mem_append.1 hj with
      | inl h => exact hacc j h
      | inr h => simp at h; subst h; exact hi
    simp only [selectGen]
    cases hd : drop i with
    | true =>
      simp only [hdrop i hi hd, Bool.false_eq_true, if_false]
      split
      · rw [← ih (acc ++ [i]) hrest' hacc']
        simp [List.filter_append, hd]
      · exact ih acc hrest' hacc
    | false =>
      have hdup : ((acc.filter fun i => !drop i).map (·.str)).contains i.str = (acc.map (·.str)).contains i.str := by
        rw [Bool.eq_iff_iff]
        simp only [List.contains_iff_mem, List.mem_map, List.mem_filter, Bool.not_eq_eq_eq_not]
        constructor
        · rintro ⟨j, ⟨hj, _⟩, hs⟩; exact ⟨j, hj, hs⟩
        · rintro ⟨j, hj, hs⟩
          refine ⟨j, ⟨hj, ?_⟩, hs⟩
          have := hstr j (hacc j hj) i hi hs
          rw [this, hd]; rfl
      rw [hdup, hkeep i hi hd]
      split
      · rw [← ih (acc ++ [i]) hrest' hacc']
        simp [List.filter_append, hd]
      · exact ih acc hrest' hacc

end Pint.Enable
