/-
  Documented meaning of `rule { match {...} ignore {...} }` (docs/configuration.md), written
  independently of the Go control flow, as propositions.
-/
import PintModel.Model.Enable
namespace Pint.Spec.Match
open Pint.Enable

/-- what a configured state word means -/
def stateIs (s : String) (st : State) : Prop :=
  s = "any" ∨ (s = "added" ∧ st = .added) ∨ (s = "modified" ∧ st = .modified) ∨
  (s = "renamed" ∧ st = .moved) ∨ (s = "removed" ∧ st = .removed) ∨ (s = "unmodified" ∧ st = .noop)

/-- a duration condition: only alerting rules whose field IS a duration can satisfy it ("duration comparisons with
their operator"); a value that does not parse is neither longer nor shorter than anything.  Until fix 9516199 the
code let such a value satisfy every comparison, and this spec had been written after the code: a spec copied from
the implementation proves nothing about it (DESIGN §11). -/
def durSatisfied (c : Option (DurOp × Nat)) (e : Entry) (d : RuleDur) : Prop :=
  ∀ op lim, c = some (op, lim) →
    e.kind = .alerting ∧ ∃ v, d = .dur v ∧ op.holds v lim = true

/-- all conditions of one match / ignore sub-block hold for the rule -/
structure Satisfied (re : Re) (m : Match) (cmd : String) (e : Entry) : Prop where
  command : ∀ c, m.command = some c → cmd = c
  state : m.states ≠ [] → ∃ s ∈ m.states, stateIs s e.state
  kind : m.kind ≠ "" → (e.kind = .alerting → m.kind = "alerting") ∧ (e.kind = .recording → m.kind = "recording")
  path : m.path ≠ "" → re m.path e.path = true
  name : m.name ≠ "" → e.kind ≠ .invalid → re m.name e.name = true
  label : ∀ k v, m.label = some (k, v) → ∃ l ∈ e.labels, re k l.1 = true ∧ re v l.2 = true
  annotation : ∀ k v, m.annotation = some (k, v) →
    e.kind = .alerting ∧ ∃ as, e.annotations = some as ∧ ∃ l ∈ as, re k l.1 = true ∧ re v l.2 = true
  for_ : durSatisfied m.for_ e e.forDur
  keepFiringFor : durSatisfied m.keepFiringFor e e.keepFiringFor

/-- the checks of a block are applied iff no ignore sub-block is satisfied and
    (there is no match sub-block or some match sub-block is satisfied) -/
def Applies (re : Re) (cmd : String) (e : Entry) (ignore match_ : List Match) : Prop :=
  (∀ i ∈ ignore, ¬ Satisfied re i cmd e) ∧ (match_ = [] ∨ ∃ m ∈ match_, Satisfied re m cmd e)

end Pint.Spec.Match
