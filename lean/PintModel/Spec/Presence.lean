/-
  Reference meaning of "presence intervals": maximal runs of samples at most `step` apart.
-/
namespace Pint.Spec.Presence

/-- process samples in ascending order, most recent run first: a sample at most `step` after the
    current run's last sample continues it, otherwise it starts a new run -/
def addRun (step : Int) (acc : List (Int × Int)) (t : Int) : List (Int × Int) :=
  match acc with
  | [] => [(t, t)]
  | (a, b) :: rest => if t ≤ b + step then (a, t) :: rest else (t, t) :: (a, b) :: rest

/-- the runs (first sample, last sample) of an ascending sample list, oldest first -/
def runs (step : Int) (ts : List Int) : List (Int × Int) := (ts.foldl (addRun step) []).reverse

/-- `lo < t₁ < t₂ < …` -/
def Asc : Int → List Int → Prop
  | _, [] => True
  | lo, t :: ts => lo < t ∧ Asc t ts

end Pint.Spec.Presence
