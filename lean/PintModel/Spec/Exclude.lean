/-
  Reference meaning of the four exclusion forms (docs/ignoring.md), written independently of the
  reader: control comments are read only on lines that are *not* excluded, plus `ignore/end`
  inside a block.
-/
import PintModel.Model.Comments
namespace Pint.Spec.Exclude
open Pint.Comments

abbrev Line := List Char

inductive SState where
  | normal | nextLine | block | file
  deriving DecidableEq, Repr

/-- what the documentation says about a line, given where we are -/
inductive Class where
  | visible     -- the line counts, verbatim
  | excluded    -- the whole line is excluded payload
  | ownLine     -- the line carries its own `ignore/line` / `ignore/file`: the text before the comment is payload
  deriving DecidableEq, Repr

def ctypeOf (tsOk : List Char → Bool) (l : Line) : Option CType := (parseComment tsOk l).map (·.ctype)

def specStep (tsOk : List Char → Bool) (s : SState) (l : Line) : SState × Class :=
  match s with
  | .file => (.file, .excluded)
  | .block => if ctypeOf tsOk l = some .ignoreEnd then (.normal, .visible) else (.block, .excluded)
  | .nextLine => (.normal, .excluded)
  | .normal =>
    match ctypeOf tsOk l with
    | some .ignoreFile => (.file, .ownLine)
    | some .ignoreLine => (.normal, .ownLine)
    | some .ignoreBegin => (.block, .visible)
    | some .ignoreNextLine => (.nextLine, .visible)
    | _ => (.normal, .visible)

/-- Two lines at the same place of two files "agree outside excluded text".
    `noCtl = true` additionally demands that wholly excluded lines carry no pint control comment
    (the restriction of `C10_partial`). -/
def LineRel (tsOk : List Char → Bool) (noCtl : Bool) (s : SState) (l l' : Line) : Prop :=
  specStep tsOk s l = specStep tsOk s l' ∧
  match (specStep tsOk s l).2 with
  | .visible => l = l'
  | .excluded => noCtl = true → parseComment tsOk l = none ∧ parseComment tsOk l' = none
  | .ownLine => ∃ (p p' t : Line) (c c' : Comment),
      l = p ++ '#' :: t ∧ l' = p' ++ '#' :: t ∧
      parseComment tsOk l = some c ∧ parseComment tsOk l' = some c' ∧
      c.offset = byteLen p ∧ c'.offset = byteLen p'

theorem LineRel.of_visible {tsOk noCtl s l l'} (h : specStep tsOk s l = specStep tsOk s l')
    (hc : (specStep tsOk s l).2 = .visible) (e : l = l') : LineRel tsOk noCtl s l l' := by
  refine ⟨h, ?_⟩; rw [hc]; exact e

theorem LineRel.of_excluded {tsOk noCtl s l l'} (h : specStep tsOk s l = specStep tsOk s l')
    (hc : (specStep tsOk s l).2 = .excluded)
    (e : noCtl = true → parseComment tsOk l = none ∧ parseComment tsOk l' = none) : LineRel tsOk noCtl s l l' := by
  refine ⟨h, ?_⟩; rw [hc]; exact e

theorem LineRel.of_own {tsOk noCtl s l l'} (h : specStep tsOk s l = specStep tsOk s l')
    (hc : (specStep tsOk s l).2 = .ownLine) (p p' t : Line) (c c' : Comment)
    (h1 : l = p ++ '#' :: t) (h2 : l' = p' ++ '#' :: t) (h3 : parseComment tsOk l = some c)
    (h4 : parseComment tsOk l' = some c') (h5 : c.offset = byteLen p) (h6 : c'.offset = byteLen p') :
    LineRel tsOk noCtl s l l' := by
  refine ⟨h, ?_⟩; rw [hc]; exact ⟨p, p', t, c, c', h1, h2, h3, h4, h5, h6⟩

/-- files that differ only inside excluded text (same number of lines) -/
inductive SameOutside (tsOk : List Char → Bool) (noCtl : Bool) : SState → List Line → List Line → Prop where
  | nil (s) : SameOutside tsOk noCtl s [] []
  | cons (s l l' ls ls') : LineRel tsOk noCtl s l l' →
      SameOutside tsOk noCtl (specStep tsOk s l).1 ls ls' → SameOutside tsOk noCtl s (l :: ls) (l' :: ls')

end Pint.Spec.Exclude
