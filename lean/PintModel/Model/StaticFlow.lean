/-
Model for property C12, static comparison folding: the `AlwaysReturns` / `KnownReturn` / `ReturnedNumber` / `IsDead`
bookkeeping of `internal/parser/utils/source.go` (`walkNode` for number literals and unary minus, `parsePromQLFunc` for
`vector`, `parseBinOps` without vector matching and one-to-one without `on`, `calculateStaticReturn`) on expressions
built from integer literals, `vector(...)`, selectors, unary minus, `+ - *` and the six comparisons with or without
`bool`.  `eval` is Prometheus's evaluation of the *closed* expressions of that language (no selector): a scalar, or
an instant vector with at most one sample and no labels.
-/
namespace Pint.StaticFlow

inductive Op | add | sub | mul | eq | ne | le | lt | ge | gt
deriving DecidableEq, Repr, Inhabited

def Op.isCmp : Op → Bool
  | .add | .sub | .mul => false
  | _ => true

def Op.arith : Op → Int → Int → Int
  | .add, a, b => a + b
  | .sub, a, b => a - b
  | .mul, a, b => a * b
  | _, a, _ => a

def Op.holds : Op → Int → Int → Bool
  | .eq, a, b => a == b
  | .ne, a, b => a != b
  | .le, a, b => a ≤ b
  | .lt, a, b => a < b
  | .ge, a, b => a ≥ b
  | .gt, a, b => a > b
  | _, _, _ => true

inductive SE
  | num (k : Int)
  | sel                                   -- any vector selector
  | vector (e : SE)                       -- vector(e), e a scalar
  | neg (e : SE)
  | bin (op : Op) (isBool : Bool) (l r : SE)
  | fn (keeps : Bool) (e : SE)            -- a function of a vector: `sort` (keeps the values) or `abs` (does not)
  | agg (keeps : Bool) (e : SE)           -- an aggregation: `sum` / `min` / `max` / `avg` (the value of one sample) or `count`
  | unlessOn (l r : SE)                   -- `l unless on() r`
deriving Repr, Inhabited

/-- `Source.Returns` is a vector -/
def isVec : SE → Bool
  | .num _ => false
  | .sel => true
  | .vector _ => true
  | .neg e => isVec e
  | .bin _ _ l r => isVec l || isVec r
  | .fn _ _ => true
  | .agg _ _ => true
  | .unlessOn _ _ => true

structure St where
  always : Bool     -- AlwaysReturns
  known : Bool      -- KnownReturn
  num : Int         -- ReturnedNumber
  dead : Bool       -- IsDead, set by calculateStaticReturn (or passed through it) or by the `unless on()` rule
  cond : Bool       -- IsConditional: a comparison guards the result
deriving DecidableEq, Repr, Inhabited

/-- `calculateStaticReturn`: the number and the dead flag it returns (`bool` plays no part in it) -/
def fold (op : Op) (a b : Int) (isDead : Bool) : Int × Bool :=
  if op.isCmp then (if op.holds a b then (a, isDead) else (a, true)) else (op.arith a b, isDead)

def static : SE → St
  | .num k => { always := true, known := true, num := k, dead := false, cond := false }
  | .sel => { always := false, known := false, num := 0, dead := false, cond := false }
  | .vector e => { always := true, known := (static e).known, num := if (static e).known then (static e).num else 0, dead := false, cond := false }
  | .neg e => let s := static e; if s.known then { s with num := -s.num } else s
  | .bin op _ l r =>
    let a := static l
    let b := static r
    let all := a.always && b.always && a.known && b.known
    if isVec l && isVec r then
      -- one-to-one without on(...): the left source, folded against the right one
      -- (`checkConditions`: a comparison makes the result conditional)
      if all then { a with num := (fold op a.num b.num a.dead).1, dead := (fold op a.num b.num a.dead).2, cond := a.cond || op.isCmp }
      else { a with cond := a.cond || op.isCmp }
    else
      -- no vector matching: the vector side (the left one when neither is a vector) carries the result
      let side := if isVec l then a else if isVec r then b else a
      if all then
        { side with dead := (fold op a.num b.num a.dead).2,
                    num := if op.isCmp then side.num else (fold op a.num b.num a.dead).1,
                    cond := side.cond || op.isCmp }
      else { side with cond := side.cond || op.isCmp }
  -- `parseCall` (after fix 5cb81d1): what was known about the argument's number is not known about the function's,
  -- unless the function only sorts or relabels
  | .fn keeps e => let s := static e; if keeps then s else { s with known := false, num := 0 }
  -- `parseAggregation` / `walkAggregation` leave the four flags alone, whatever the aggregation does to the value
  | .agg _ e => static e
  -- `parseBinOps`, many-to-many, `unless` with `on()`: a right side that always returns something and is not guarded
  -- by a comparison takes everything away
  | .unlessOn l r => let s := static l; if (static r).always && !(static r).cond then { s with dead := true } else s

inductive Val
  | s (k : Int)             -- scalar
  | v (x : Option Int)      -- instant vector without labels: no sample or one
deriving DecidableEq, Repr, Inhabited

/-- one pair of operands: `keep` is the sample a filtering comparison lets through (the vector side's, fix 19a8ba5) -/
def apply (op : Op) (isBool : Bool) (a b keep : Int) : Option Int :=
  if op.isCmp then
    if isBool then some (if op.holds a b then 1 else 0)
    else if op.holds a b then some keep else none
  else some (op.arith a b)

def evalBin (op : Op) (isBool : Bool) : Val → Val → Val
  | .s a, .s b => if op.isCmp then .s (if op.holds a b then 1 else 0) else .s (op.arith a b)
  | .v x, .s b => .v (x.bind fun a => apply op isBool a b a)
  | .s a, .v y => .v (y.bind fun b => apply op isBool a b b)
  | .v x, .v y => .v (x.bind fun a => y.bind fun b => apply op isBool a b a)

/-- evaluation of closed expressions (a selector stands for "no series"; the theorems exclude it) -/
def eval : SE → Val
  | .num k => .s k
  | .sel => .v none
  | .vector e => match eval e with
    | .s k => .v (some k)
    | .v x => .v x
  | .neg e => match eval e with
    | .s k => .s (-k)
    | .v x => .v (x.map fun k => -k)
  | .bin op isBool l r => evalBin op isBool (eval l) (eval r)
  | .fn keeps e => if keeps then eval e else match eval e with
    | .s k => .s (Int.natAbs k)
    | .v x => .v (x.map fun k => (Int.natAbs k : Int))
  | .agg keeps e => if keeps then eval e else match eval e with
    | .s k => .s k
    | .v x => .v (x.map fun _ => 1)
  | .unlessOn l r => match eval l, eval r with
    | .v x, .v y => if y.isSome then .v none else .v x
    | a, _ => a

def closed : SE → Bool
  | .num _ => true
  | .sel => false
  | .vector e => closed e
  | .neg e => closed e
  | .bin _ _ l r => closed l && closed r
  | .fn _ e => closed e
  | .agg _ e => closed e
  | .unlessOn l r => closed l && closed r

/-- no operation between two vectors (where `AlwaysReturns` survives although the result can be empty: recorded finding) -/
def noVV : SE → Bool
  | .bin _ _ l r => !(isVec l && isVec r) && noVV l && noVV r
  | .unlessOn _ _ => false
  | .vector e => noVV e
  | .neg e => noVV e
  | .fn _ e => noVV e
  | .agg _ e => noVV e
  | _ => true

/-- the right side of every `unless on()` is free of vector-vector operations -/
def unlessSimple : SE → Bool
  | .unlessOn l r => noVV r && unlessSimple l && unlessSimple r
  | .bin _ _ l r => unlessSimple l && unlessSimple r
  | .vector e => unlessSimple e
  | .neg e => unlessSimple e
  | .fn _ e => unlessSimple e
  | .agg _ e => unlessSimple e
  | _ => true

/-- every function and aggregation in the expression keeps the values it is given -/
def valueKeeping : SE → Bool
  | .fn keeps e => keeps && valueKeeping e
  | .agg keeps e => keeps && valueKeeping e
  | .unlessOn l r => valueKeeping l && valueKeeping r
  | .vector e => valueKeeping e
  | .neg e => valueKeeping e
  | .bin _ _ l r => valueKeeping l && valueKeeping r
  | _ => true

def boolFree : SE → Bool
  | .bin _ isBool l r => !isBool && boolFree l && boolFree r
  | .vector e => boolFree e
  | .neg e => boolFree e
  | .fn _ e => boolFree e
  | .agg _ e => boolFree e
  | .unlessOn l r => boolFree l && boolFree r
  | _ => true

/-- what the PromQL parser accepts: `vector` takes a scalar, a comparison between two scalars needs `bool` -/
def wellTyped : SE → Bool
  | .vector e => !isVec e && wellTyped e
  | .neg e => wellTyped e
  | .bin op isBool l r => wellTyped l && wellTyped r && (isVec l || isVec r || !op.isCmp || isBool)
  | .fn _ e => isVec e && wellTyped e
  | .agg _ e => isVec e && wellTyped e
  | .unlessOn l r => isVec l && isVec r && wellTyped l && wellTyped r
  | _ => true

/-- `parseBinOps`, `or`: the right-hand branches are declared dead when no left-hand source can be empty
(`lhsCanBeEmpty`); for a left side with one source: it always returns and no comparison guards it -/
def orRhsDead (l : SE) : Bool := (static l).always && !(static l).cond

/-- `x or on() y` on vectors without labels: everything of `x`, and `y` only when `x` is empty -/
def evalOrOn : Val → Val → Val
  | .v x, .v y => if x.isSome then .v x else .v y
  | a, _ => a

end Pint.StaticFlow
