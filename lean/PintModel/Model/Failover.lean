/-
  Model of internal/promapi/failover.go (the ordered retry loops), internal/promapi/errors.go
  (IsUnavailableError, isUnsupportedError) and internal/checks/base.go problemFromError (severity).
  What an upstream answered is abstracted to an `Outcome`; how network / HTTP faults map to outcomes is
  established exhaustively by the harness (it is net/http + JSON decoding behaviour).
-/
import PintModel.Gen.Errors
namespace Pint.Failover

/-- what one upstream did with the request -/
inductive Outcome where
  | ok (answer : Nat)
  | api (errType : String)        -- an APIError with this (decoded) type, e.g. "v1.ErrBadData"
  | transport                     -- not an APIError: connection refused, timeout, reset, …
  | unsupported                   -- the sentinel ErrUnsupported (404 on config/flags/metadata)
  deriving DecidableEq, Repr, Inhabited

/-- `IsUnavailableError` over the regenerated constants: APIError ⇒ compare the type; otherwise the default -/
def isUnavailable : Outcome → Bool
  | .ok _ => false
  | .api t => t = Gen.Errors.unavailableType
  | .transport => Gen.Errors.unavailableDefault = "true"
  | .unsupported => Gen.Errors.unavailableDefault = "true"

/-- the loop of endpoint `ep` stops on this (non-ok) outcome iff its regenerated stop condition holds -/
def stops (ep : String) (o : Outcome) : Bool :=
  match Gen.Errors.loops.lookup ep with
  | some "!IsUnavailableError(err)" => !isUnavailable o
  | some "!IsUnavailableError(err) && !errors.Is(err, ErrUnsupported)" => !isUnavailable o && o ≠ .unsupported
  | _ => true

structure Result where
  answer : Option Nat          -- Some a: success
  err : Option (Outcome × Nat) -- the error returned and the index of the upstream whose URI it carries
  contacted : Nat              -- how many upstreams were contacted (always a prefix)
  deriving DecidableEq, Repr

/-- `FailoverGroup.Query/RangeQuery/Config/Flags/Metadata`: try upstreams in order from index `i` -/
def failover (ep : String) : List Outcome → Nat → Option (Outcome × Nat) → Result
  | [], i, last => ⟨none, last, i⟩
  | o :: rest, i, _ =>
    match o with
    | .ok a => ⟨some a, none, i + 1⟩
    | _ => if stops ep o then ⟨none, some (o, i), i + 1⟩ else failover ep rest (i + 1) (some (o, i))

inductive Sev where
  | information | warning | bug | fatal
  deriving DecidableEq, Repr

/-- `problemFromError`: three-way switch; `tooExpensive` stands for IsQueryTooExpensive(err) -/
def problemSeverity (tooExpensive : Bool) (o : Outcome) (strict : Bool) (own : Sev) : Sev :=
  if tooExpensive then .warning
  else if isUnavailable o then (if strict then .bug else .warning)
  else own

end Pint.Failover
