/-
Model of pint's branch-change discovery (property C03).

Code modelled:
* `internal/git/changes.go`   `Changes` — the fold over `git log --name-status` records
  (`getChangeByPath`, `changesWithout`, the "no previous change" switch), and where the before / after
  bodies are read (`Commits[0]^` at the before path, the last commit at the after path);
* `internal/discovery/git_branch.go` `matchEntries`, `findRulesByName`, `isEntryIdentical` and the state switch in
  `GitBranchFinder.Find`.

Not modelled (trusted / covered only by the end-to-end runs): git itself (rename detection, blame), symlink
handling, `ModifiedLines`, the final merge of branch entries into the glob entries (`Rule.IsSame`, by line range),
parse failures of a file (`PathError`, `failedEntries`).

The change list is kept newest first (the Go slice is oldest first; only membership and "most recent for a path"
matter downstream, `changes` returns it in the Go order).
-/
namespace Pint.Git

inductive St | A | C | D | M | R | T
deriving DecidableEq, Repr, Inhabited

/-- one `--name-status` record; `commit` is the 1-based index of the branch commit it belongs to
(0 is the merge base), `exBefore` is `getTypeForPath(commit^, src) ≠ Missing`, consulted only for an `A`/`C`
record without a previous change. -/
structure Rec where
  commit : Nat
  st : St
  src : String
  dst : String
  exBefore : Bool := false
deriving Repr, Inhabited

structure Chg where
  st : St
  before : String      -- "" = no before path
  after : String
  commits : List Nat
deriving DecidableEq, Repr, Inhabited

def hasAfter (p : String) (c : Chg) : Bool := c.after == p

/-- the `else` branch of the fold: which before path a record without history gets -/
def freshBefore (r : Rec) : String :=
  match r.st with
  | .A => if r.exBefore then r.src else ""
  | .C => if r.exBefore then r.src else ""
  | _ => r.src

/-- one iteration of the loop over records (list newest first) -/
def step (cs : List Chg) (r : Rec) : List Chg :=
  match cs.find? (hasAfter r.src) with
  | some prev =>
    { st := r.st, before := prev.before, after := r.dst, commits := prev.commits ++ [r.commit] } :: cs.eraseP (hasAfter r.src)
  | none =>
    { st := r.st, before := freshBefore r, after := r.dst, commits := [r.commit] } :: cs

def fold (rs : List Rec) : List Chg := rs.foldl step []

/-- in the order of the Go slice -/
def changes (rs : List Rec) : List Chg := (fold rs).reverse

/-! ### the code before the `fix:` commit (kept to show what the theorem excludes) -/

/-- `getChangeByPath` returned the *oldest* change for a path and `changesWithout` removed all of them -/
def stepOld (cs : List Chg) (r : Rec) : List Chg :=
  match cs.reverse.find? (hasAfter r.src) with
  | some prev =>
    { st := r.st, before := prev.before, after := r.dst, commits := prev.commits ++ [r.commit] } :: cs.filter (fun c => !hasAfter r.src c)
  | none =>
    { st := r.st, before := freshBefore r, after := r.dst, commits := [r.commit] } :: cs

def foldOld (rs : List Rec) : List Chg := rs.foldl stepOld []

/-! ### reference semantics: the tree of files and where each one comes from -/

/-- a file of the working tree: its path now, the base path it descends from ("" = created on the branch),
the branch commits that touched its chain so far and the status of the last record -/
structure TFile where
  path : String
  origin : String
  commits : List Nat
  st : St
deriving DecidableEq, Repr, Inhabited

structure Tree where
  live : List TFile
  dead : List TFile     -- deleted on the branch, most recently deleted first
deriving Repr, Inhabited

def atPath (p : String) (f : TFile) : Bool := f.path == p

def baseTree (paths : List String) : Tree :=
  { live := paths.map fun p => { path := p, origin := p, commits := [], st := .M }, dead := [] }

/-- a record is applicable: its source is there, its destination is free -/
def applicable (t : Tree) (r : Rec) : Bool :=
  match r.st with
  | .A => !t.live.any (atPath r.dst) && r.src == r.dst && !r.exBefore
  | .C => false     -- copies are never reported by `git log --name-status` without `-C`
  | .R => t.live.any (atPath r.src) && !t.live.any (atPath r.dst) && r.src != r.dst
  | _ => t.live.any (atPath r.src) && r.src == r.dst

def touch (c : Nat) (st : St) (dst : String) (f : TFile) : TFile :=
  { path := dst, origin := f.origin, commits := f.commits ++ [c], st := st }

def applyRec (t : Tree) (r : Rec) : Tree :=
  match r.st with
  | .A =>
    match t.dead.find? (atPath r.dst) with
    | some d => { live := touch r.commit .A r.dst d :: t.live, dead := t.dead.eraseP (atPath r.dst) }
    | none => { live := { path := r.dst, origin := "", commits := [r.commit], st := .A } :: t.live, dead := t.dead }
  | .D =>
    match t.live.find? (atPath r.src) with
    | some f => { live := t.live.eraseP (atPath r.src), dead := touch r.commit .D r.dst f :: t.dead }
    | none => t
  | st =>
    match t.live.find? (atPath r.src) with
    | some f => { live := touch r.commit st r.dst f :: t.live.eraseP (atPath r.src), dead := t.dead }
    | none => t

def run (t : Tree) (rs : List Rec) : Tree := rs.foldl applyRec t

/-- every record of the history is applicable to the tree it meets -/
def WF : Tree → List Rec → Prop
  | _, [] => True
  | t, r :: rs => applicable t r = true ∧ WF (applyRec t r) rs

def wfB : Tree → List Rec → Bool
  | _, [] => true
  | t, r :: rs => applicable t r && wfB (applyRec t r) rs

def toChg (f : TFile) : Chg := { st := f.st, before := f.origin, after := f.path, commits := f.commits }

def touched (f : TFile) : Bool := !f.commits.isEmpty

/-! ### rule entries and their matching -/

structure Ent where
  alert : Bool
  name : String
  content : Nat      -- everything `Rule.IsIdentical` compares besides type and name
  disabled : Nat     -- the entry's `DisabledChecks`
  path : String
deriving DecidableEq, Repr, Inhabited

def identical (a b : Ent) : Bool := a.alert == b.alert && a.name == b.name && a.content == b.content
def sameKey (a b : Ent) : Bool := a.alert == b.alert && a.name == b.name

structure Matched where
  before : Option Ent
  after : Option Ent
  isIdentical : Bool
  wasMoved : Bool
deriving DecidableEq, Repr, Inhabited

/-- the first loop of `matchEntries` for one HEAD rule: the first identical before-entry is taken out -/
def takeIdentical (a : Ent) : List Ent → Option Ent × List Ent
  | [] => (none, [])
  | b :: bs =>
    if a.name != "" && identical a b then (some b, bs)
    else ((takeIdentical a bs).1, b :: (takeIdentical a bs).2)

/-- `findRulesByName` -/
def byName (a : Ent) (bs : List Ent) : List Ent × List Ent :=
  (bs.filter fun b => !sameKey a b, bs.filter (sameKey a))

/-- first pass of `matchEntries` for one HEAD rule: claim the first identical base rule -/
def pass1One (before : List Ent) (a : Ent) : Matched × List Ent :=
  match takeIdentical a before with
  | (some b, rest) => ({ before := some b, after := some a, isIdentical := b.disabled == a.disabled, wasMoved := a.path != b.path }, rest)
  | (none, rest) => ({ before := none, after := some a, isIdentical := false, wasMoved := false }, rest)

def pass1 : List Ent → List Ent → List Matched × List Ent
  | before, [] => ([], before)
  | before, a :: as =>
    ((pass1One before a).1 :: (pass1 (pass1One before a).2 as).1, (pass1 (pass1One before a).2 as).2)

/-- second pass for one HEAD rule left without an identical base rule: match by type and name, if unambiguous -/
def pass2One (before : List Ent) (m : Matched) : Matched × List Ent :=
  match m.before, m.after with
  | none, some a =>
    match byName a before with
    | (others, [b]) => ({ before := some b, after := some a, isIdentical := false, wasMoved := a.path != b.path }, others)
    | (others, []) => (m, others)
    | (others, ms) => (m, others ++ ms)
  | _, _ => (m, before)

def pass2 : List Ent → List Matched → List Matched × List Ent
  | before, [] => ([], before)
  | before, m :: ms =>
    ((pass2One before m).1 :: (pass2 (pass2One before m).2 ms).1, (pass2 (pass2One before m).2 ms).2)

/-- both passes: the HEAD rules in order with what they were matched to, and the base rules left over -/
def matchAfter (before after : List Ent) : List Matched × List Ent :=
  pass2 (pass1 before after).2 (pass1 before after).1

/-! the single-pass matching of the code before the `fix:` commit (identical and by-name matching interleaved per
HEAD rule) -/
def matchOneOld (before : List Ent) (a : Ent) : Matched × List Ent :=
  match takeIdentical a before with
  | (some b, rest) => ({ before := some b, after := some a, isIdentical := b.disabled == a.disabled, wasMoved := a.path != b.path }, rest)
  | (none, rest) =>
    match byName a rest with
    | (others, [b]) => ({ before := some b, after := some a, isIdentical := false, wasMoved := a.path != b.path }, others)
    | (others, []) => ({ before := none, after := some a, isIdentical := false, wasMoved := false }, others)
    | (others, ms) => ({ before := none, after := some a, isIdentical := false, wasMoved := false }, others ++ ms)

def matchAfterOld : List Ent → List Ent → List Matched × List Ent
  | before, [] => ([], before)
  | before, a :: as =>
    ((matchOneOld before a).1 :: (matchAfterOld (matchOneOld before a).2 as).1, (matchAfterOld (matchOneOld before a).2 as).2)

def matchEntries (before after : List Ent) : List Matched :=
  (matchAfter before after).1 ++ (matchAfter before after).2.map fun b => { before := some b, after := none, isIdentical := false, wasMoved := false }

inductive State | noop | added | modified | moved | removed
deriving DecidableEq, Repr, Inhabited

/-- the state switch of `GitBranchFinder.Find` -/
def stateOf (m : Matched) : State :=
  match m.before, m.after with
  | none, _ => .added
  | some _, none => .removed
  | some _, some _ => if m.isIdentical && !m.wasMoved then .noop else if m.wasMoved then .moved else .modified

/-- reference: compare a HEAD rule with the base rule of the same type and name -/
def specState (before : List Ent) (a : Ent) : State :=
  match before.find? (sameKey a) with
  | none => .added
  | some b =>
    if a.path != b.path then .moved
    else if b.content == a.content && b.disabled == a.disabled then .noop
    else .modified

/-! ### the pipeline: snapshots → states of the HEAD rules -/

/-- a snapshot of the rule files after some commit -/
abbrev Snap := List (String × List Ent)

def fileAt (s : Snap) (p : String) : List Ent := ((s.find? fun x => x.1 == p).map (·.2)).getD []

def snapAt (snaps : List Snap) (k : Nat) : Snap := snaps[k]?.getD []

/-- entries of one change with their states: before body at `Commits[0]^`, after body at the last commit -/
def changeStates (snaps : List Snap) (c : Chg) : List (Ent × State) :=
  let first := c.commits.head?.getD 1
  let last := c.commits.getLast?.getD 0
  let before := if c.before == "" then [] else (fileAt (snapAt snaps (first - 1)) c.before).map fun e => { e with path := c.before }
  let after := if c.st == .D then [] else (fileAt (snapAt snaps last) c.after).map fun e => { e with path := c.after }
  (matchEntries before after).filterMap fun m =>
    match m.after with
    | some a => some (a, stateOf m)
    | none => none

/-- state of every rule of the HEAD snapshot: the states the last change (in Go order) for its file gives to the file's
rules, position by position (the final merge loop pairs branch entries with glob entries by line range); `noop` when
no change mentions the file -/
def headStates (snaps : List Snap) (rs : List Rec) : List (Ent × State) :=
  let head := snapAt snaps (snaps.length - 1)
  head.flatMap fun (p, es) =>
    let es' := es.map fun e => { e with path := p }
    match (changes rs).reverse.find? (fun c => c.after == p && c.st != .D) with
    | some c =>
      let sts := changeStates snaps c
      if sts.length == es'.length then es'.zip (sts.map (·.2)) else es'.map fun e => (e, State.noop)
    | none => es'.map fun e => (e, State.noop)

/-! ### the final loop of `Find`: branch entries meet the entries of the glob finder -/

/-- an entry as that loop sees it: `key` stands for what `Rule.IsSame` compares (rule kind, error, first and last line) -/
structure GE where
  path : String
  key : Nat
  state : Nat
  removed : Bool
deriving DecidableEq, Repr, Inhabited

def sameRule (e g : GE) : Bool := g.path == e.path && g.key == e.key

/-- `for i, globEntry := range allEntries { if same { allEntries[i].State = entry.State; found = true; break } }` -/
def setFirst (e : GE) : List GE → Option (List GE)
  | [] => none
  | g :: gs => if sameRule e g then some ({ g with state := e.state } :: gs) else (setFirst e gs).map (g :: ·)

def mergeOne (all : List GE) (e : GE) : List GE :=
  if e.removed then all ++ [e]
  else match setFirst e all with
    | some all' => all'
    | none => all ++ [e]

def mergeAll (all es : List GE) : List GE := es.foldl mergeOne all

/-- what the loop should amount to: every glob entry takes the state of the branch entry for the same rule, if there is
one; removed entries are added at the end -/
def stateFrom (es : List GE) (g : GE) : GE :=
  match es.find? (fun e => !e.removed && sameRule e g) with
  | some e => { g with state := e.state }
  | none => g


end Pint.Git
