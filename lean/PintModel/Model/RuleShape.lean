/-
  Model of the outcome of internal/parser/parser.go parseRule and internal/parser/strict.go
  parseRuleStrict, at the level of "which keys are present and which validations fail".
  The order of the tests is the order of the source.
-/
namespace Pint.RuleShape

structure Flags where
  dupKey : Bool            -- a known key occurs twice (first duplicate wins, detected while walking)
  record : Bool
  alert : Bool
  expr : Bool
  for_ : Bool
  kff : Bool
  labels : Bool
  annotations : Bool
  badScalarTag : Bool      -- record/alert/expr/for/keep_firing_for is not a string
  badMapTag : Bool         -- labels/annotations is not a mapping
  badStringMap : Bool      -- validateStringMap fails for labels or annotations
  nameEmpty : Bool         -- record / alert value is empty
  exprEmpty : Bool
  unknownKeys : Bool
  badNames : Bool          -- invalid metric / label / annotation names or label values
  deriving DecidableEq, Repr

inductive Outcome where
  | error | recording | alerting | empty
  deriving DecidableEq, Repr

/-- any of the error returns of `parseRule` (all of them precede the two success returns; which one
    fires first only decides the message) -/
def anyError (f : Flags) : Bool :=
  f.dupKey || (f.record && f.alert) || (f.expr && !f.alert && !f.record) ||
  (f.record && f.for_) || (f.record && f.kff) || (f.record && f.annotations) ||
  f.badScalarTag || f.badMapTag || f.badStringMap ||
  (f.record && (f.nameEmpty || !f.expr || f.exprEmpty)) ||      -- ensureRequiredKeys(record)
  (f.alert && (f.nameEmpty || !f.expr || f.exprEmpty)) ||       -- ensureRequiredKeys(alert)
  ((f.record || f.alert) && f.unknownKeys) || ((f.record || f.alert) && f.badNames)

/-- `parseRule` (the relaxed walker keeps a rule iff the outcome is not `empty`) -/
def parseRule (f : Flags) : Outcome :=
  if anyError f then .error
  else if f.record && f.expr then .recording
  else if f.alert && f.expr then .alerting
  else .empty

/-- `parseRuleStrict` after the rule-level key whitelist: an empty outcome becomes an error
    when the source handles `isEmpty` (regenerated fact `strictHandlesEmpty`) -/
def parseRuleStrict (handlesEmpty : Bool) (f : Flags) : Outcome :=
  if f.unknownKeys then .error
  else match parseRule f with
    | .empty => if handlesEmpty then .error else .empty
    | o => o

/-- console reporter, no-diagnostics branch: which lines are printed for a problem range -/
def consoleLines (first last nlines : Nat) : List Nat :=
  (List.range (last + 1 - first)).filterMap fun k => let i := first + k; if i < 1 ∨ i > nlines then none else some i

end Pint.RuleShape
