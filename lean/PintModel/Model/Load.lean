/-
Model for property C01: two acceptors over the same abstract rule document.

* `pintBlocks`  — does pint's strict pipeline report a Bug/Fatal problem?  `internal/parser/strict.go` (`parseGroups`,
  `parseGroup`, `parseRuleStrict`), `internal/parser/parser.go` (`parseRule`, `validateStringMap`,
  `ensureRequiredKeys`), turned into Fatal `yaml/parse` problems by the error check, plus the offline checks that can
  emit Bug/Fatal for an error-free rule: promql/syntax (Fatal), alerts/template's template syntax error (Fatal),
  alerts/for's invalid duration (Bug).  After the `fix:` commits 96b36f9 caf7559 a3adc4d 20a0ec5 ea26d73.
* `promRejects` — does `rulefmt.Parse(content, false)` (Prometheus v0.303) return an error?  Strict decode
  (`KnownFields`, duplicate keys, type mismatches) followed by `RuleGroups.Validate` / `Rule.Validate`.

The document abstracts a yaml.v3 node tree: every field is absent / null / a string scalar (empty or not, with the
verdict of the real leaf validator: duration, PromQL, template, name validity) / a collection.  Scalars with another
tag (int, bool, float) and aliases are outside the modelled domain: the harness only sends documents inside it.
-/
namespace Pint.Load

/-- a field that should hold a string; `other` = a scalar with another tag (int, bool, float): pint refuses the type,
yaml.v3 hands its text to Prometheus -/
inductive SV | absent | null | empty | val | coll | other
deriving DecidableEq, Repr, Inhabited

/-- a field that should hold a duration (string-tagged scalars only) -/
inductive DV | absent | null | valid | zero | invalid | coll | otherValid | otherZero | otherInvalid
deriving DecidableEq, Repr, Inhabited

/-- what Prometheus sees: the text of any scalar -/
def pv (s : SV) : SV := if s == .other then .val else s
def pd (d : DV) : DV :=
  match d with | .otherValid => .valid | .otherZero => .zero | .otherInvalid => .invalid | x => x

/-- `limit` -/
inductive LV | absent | null | int | other
deriving DecidableEq, Repr, Inhabited

inductive MKind | absent | null | notMap | map
deriving DecidableEq, Repr, Inhabited

/-- a labels / annotations mapping -/
structure MapV where
  kind : MKind
  dupKey : Bool         -- a key occurs twice
  collValue : Bool      -- some value is a sequence or mapping
  badName : Bool        -- some key is not a valid label name
  metricName : Bool     -- some key is __name__
  badValue : Bool       -- some value is not a valid label value (invalid UTF-8)
  badTemplate : Bool    -- some value does not parse as a template
  nonEmpty : Bool       -- the mapping has entries
  otherValue : Bool     -- some value is a scalar that is not a string (and not null)
deriving DecidableEq, Repr, Inhabited

structure RuleD where
  isNull : Bool          -- the list entry is null: yaml.v3 drops it when decoding into []Rule
  isMap : Bool
  record : SV
  alert : SV
  expr : SV
  recordValid : Bool     -- IsValidMetricName(record)
  recordBraces : Bool    -- record contains { or }
  exprParses : Bool      -- promql parser.ParseExpr(expr) succeeds
  for_ : DV
  keepFiring : DV
  labels : MapV
  annotations : MapV
  unknownKey : Bool
  duplicateKey : Bool
deriving DecidableEq, Repr, Inhabited

inductive RulesV
  | absent | null | notSeq
  | seq (rs : List RuleD)
deriving Repr, Inhabited

structure GroupD where
  isNull : Bool          -- a null entry of the groups list is dropped by yaml.v3
  isMap : Bool
  name : SV
  nameText : String      -- the name, for the repeated-name test (meaningful when name = val)
  interval : DV
  queryOffset : DV
  limit : LV
  labels : MapV
  rules : RulesV
  unknownKey : Bool
  duplicateKey : Bool
deriving Repr, Inhabited

inductive GroupsV
  | absent | null | notSeq
  | seq (gs : List GroupD)
deriving Repr, Inhabited

structure Doc where
  empty : Bool           -- no document at all
  isMap : Bool
  unknownKey : Bool      -- a top level key other than `groups` (or a non-string key)
  dupGroups : Bool       -- `groups` given twice
  multiDoc : Bool        -- more than one YAML document
  groups : GroupsV
deriving Repr, Inhabited

/-! ### pint -/

def mapIsMapOrNull (m : MapV) : Bool := m.kind == .map || m.kind == .null || m.kind == .absent
def mapPresentMap (m : MapV) : Bool := m.kind == .map

/-- errors of `parseRule` / `parseRuleStrict` for one rule, and Bug/Fatal of the offline checks on an error-free rule -/
def pintRule (r : RuleD) : Bool :=
  r.isNull || !r.isMap || r.duplicateKey || r.unknownKey ||
  r.record == .coll || r.alert == .coll || r.expr == .coll || r.for_ == .coll || r.keepFiring == .coll ||
  r.record == .other || r.alert == .other || r.expr == .other ||
  r.for_ == .otherValid || r.for_ == .otherZero || r.for_ == .otherInvalid ||
  r.keepFiring == .otherValid || r.keepFiring == .otherZero || r.keepFiring == .otherInvalid ||
  r.record == .null || r.alert == .null || r.expr == .null ||
  r.labels.kind == .notMap || r.annotations.kind == .notMap ||
  (mapPresentMap r.labels && (r.labels.collValue || r.labels.dupKey || r.labels.otherValue)) ||
  (mapPresentMap r.annotations && (r.annotations.collValue || r.annotations.dupKey || r.annotations.otherValue)) ||
  (r.record != .absent && r.alert != .absent) ||
  (r.record == .absent && r.alert == .absent) ||
  r.record == .empty || r.alert == .empty ||
  r.expr == .absent || r.expr == .empty ||
  (r.record != .absent && (r.for_ != .absent || r.keepFiring != .absent || r.annotations.kind != .absent)) ||
  (r.record == .val && (!r.recordValid || r.recordBraces)) ||
  (mapPresentMap r.labels && (r.labels.badName || r.labels.metricName || r.labels.badValue)) ||
  (r.alert != .absent && mapPresentMap r.annotations && r.annotations.badName) ||
  -- checks on a rule without parse error
  (r.expr == .val && !r.exprParses) ||
  (r.alert == .val && ((mapPresentMap r.labels && r.labels.badTemplate) || (mapPresentMap r.annotations && r.annotations.badTemplate))) ||
  (r.alert == .val && (r.for_ == .invalid || r.for_ == .null || r.keepFiring == .invalid || r.keepFiring == .null))

def pintGroupOwn (g : GroupD) : Bool :=
  g.isNull || !g.isMap || g.unknownKey || g.duplicateKey ||
  g.name != .val ||
  (g.interval != .absent && g.interval != .valid && g.interval != .zero) ||
  (g.queryOffset != .absent && g.queryOffset != .valid && g.queryOffset != .zero) ||
  (g.limit != .absent && g.limit != .int) ||
  (g.labels.kind != .absent && g.labels.kind != .map) ||
  (mapPresentMap g.labels && (g.labels.collValue || g.labels.dupKey || g.labels.otherValue || g.labels.badName || g.labels.metricName || g.labels.badValue)) ||
  (match g.rules with | .notSeq => true | _ => false)

def pintGroup (g : GroupD) : Bool :=
  pintGroupOwn g || (match g.rules with | .seq rs => rs.any pintRule | _ => false)

/-- some group name occurs twice among the groups that got a name -/
def repeatedName : List String → Bool
  | [] => false
  | n :: ns => ns.contains n || repeatedName ns

def namesOf (gs : List GroupD) : List String := (gs.filter fun g => !g.isNull && pv g.name == .val).map (·.nameText)

def pintBlocks (d : Doc) : Bool :=
  if d.empty then false
  else !d.isMap || d.unknownKey || d.dupGroups || d.multiDoc ||
    (match d.groups with
     | .notSeq => true
     | .seq gs => gs.any pintGroup || repeatedName (namesOf gs)
     | _ => false)

/-! ### Prometheus -/

def promMapBad (m : MapV) : Bool :=
  m.kind == .notMap || (m.kind == .map && (m.collValue || m.dupKey))

def promRule (r : RuleD) : Bool :=
  !r.isNull && (!r.isMap || r.duplicateKey || r.unknownKey ||
  r.record == .coll || r.alert == .coll || r.expr == .coll || r.for_ == .coll || r.keepFiring == .coll ||
  pd r.for_ == .invalid || pd r.keepFiring == .invalid ||
  promMapBad r.labels || promMapBad r.annotations ||
  -- Rule.Validate (null and absent decode to the zero value)
  (pv r.record == .val && pv r.alert == .val) ||
  (pv r.record != .val && pv r.alert != .val) ||
  (pv r.expr != .val) || (pv r.expr == .val && !r.exprParses) ||
  (pv r.record == .val && ((r.annotations.kind == .map && r.annotations.nonEmpty) || pd r.for_ == .valid || pd r.keepFiring == .valid ||
                        !r.recordValid || r.recordBraces)) ||
  (r.labels.kind == .map && (r.labels.badName || r.labels.metricName || r.labels.badValue)) ||
  (r.annotations.kind == .map && r.annotations.badName) ||
  (pv r.alert == .val && ((r.labels.kind == .map && r.labels.badTemplate) || (r.annotations.kind == .map && r.annotations.badTemplate))))

def promGroupOwn (g : GroupD) : Bool :=
  !g.isMap || g.unknownKey || g.duplicateKey ||
  g.name == .coll || pv g.name != .val ||
  pd g.interval == .invalid || g.interval == .coll || pd g.queryOffset == .invalid || g.queryOffset == .coll ||
  g.limit == .other ||
  promMapBad g.labels ||
  (g.labels.kind == .map && (g.labels.badName || g.labels.metricName || g.labels.badValue)) ||
  (match g.rules with | .notSeq => true | _ => false)

def promGroup (g : GroupD) : Bool :=
  !g.isNull && (promGroupOwn g || (match g.rules with | .seq rs => rs.any promRule | _ => false))

def promRejects (d : Doc) : Bool :=
  if d.empty then false
  else !d.isMap || d.unknownKey || d.dupGroups ||
    (match d.groups with
     | .notSeq => true
     | .seq gs => gs.any promGroup || repeatedName (namesOf gs)
     | _ => false)

end Pint.Load
