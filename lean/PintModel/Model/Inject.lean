import PintModel.Model.Position
/-
  Model of `diags.InjectDiagnostics` (internal/diags/problems.go): which lines of the file are written, under which
  line each diagnostic's message is written, and the one site that can panic (`slices.Max` of the covered lines).
  Position ranges are well-formed (`first ≤ last`), as `appendPosition` builds them; columns of a diagnostic are Go
  ints (they are computed from PromQL positions and can be anything).  The characters of the caret row are not
  modelled here (C06 reads them off the real output).
-/
namespace Pint.Inject
open Pint.Position

structure Diag where
  pos : List PR
  firstCol : Int
  lastCol : Int
deriving Repr, Inhabited

/-- every line some diagnostic has a position on (`lineCoverage`, before sorting and de-duplication) -/
def allLines (ds : List Diag) : List Nat := ds.flatMap fun d => d.pos.map (·.line)

def covered (ds : List Diag) (l : Nat) : Bool := (allLines ds).contains l

/-- `first := max(1, min(diag.FirstColumn, dl))` -/
def clampFirst (d : Diag) : Nat := (max 1 (min d.firstCol (posLen d.pos))).toNat
/-- `max(first, min(diag.LastColumn, dl))` -/
def clampLast (d : Diag) : Nat := (max (clampFirst d : Int) (min d.lastCol (posLen d.pos))).toNat

def diagPositions (d : Diag) : List PR := readRange (clampFirst d) (clampLast d) d.pos

/-- `PositionRanges.Lines().Last`; 0 for no positions -/
def linesLast : List PR → Nat
  | [] => 0
  | p :: ps => ps.foldl (fun m q => max m q.line) p.line

/-- for a file of `n` lines (`len(strings.Split(content, "\n"))`): `none` = panic in `slices.Max`; otherwise the line
numbers written, in order, and for every written line the indexes of the diagnostics whose message follows it -/
def inject (n : Nat) (ds : List Diag) : Option (List (Nat × List Nat)) :=
  match (allLines ds).max? with
  | none => none
  | some last =>
    some ((List.range n).filterMap fun k =>
      if k + 1 ≤ last ∧ covered ds (k + 1) = true then
        some (k + 1, (List.range ds.length).filter fun i => linesLast (diagPositions (ds.getD i default)) = k + 1)
      else none)

/-! ### the caret row -/

/-- `disablePoints[i]`: an earlier diagnostic has the same (unclamped) column range of the same positions
(fix ce2f37c: the positions were not compared, and a diagnostic about another field with equal offsets lost its carets) -/
def pointsDisabled (ds : List Diag) (i : Nat) : Bool :=
  (List.range i).any fun j =>
    (ds.getD j default).firstCol == (ds.getD i default).firstCol && (ds.getD j default).lastCol == (ds.getD i default).lastCol &&
    (ds.getD j default).pos == (ds.getD i default).pos

def insideAt (dps : List PR) (l c : Nat) : Bool := dps.any fun p => p.line == l && p.first ≤ c && c ≤ p.last
def beforeAt (dps : List PR) (l c : Nat) : Bool := dps.any fun p => p.line == l && c < p.first

/-- the characters written under line `l` for a diagnostic with selected positions `dps`: one per rune of the line
(`offs` = the 0-based byte offset of every rune, which is what `for columnIndex, r := range line` yields): `^` inside a
position, a blank before one (or inside, when the points are disabled), nothing after the last one -/
def caretRow (dps : List PR) (disabled : Bool) (l : Nat) (offs : List Nat) : List Char :=
  offs.filterMap fun o =>
    if insideAt dps l (o + 1) && !disabled then some '^'
    else if insideAt dps l (o + 1) || beforeAt dps l (o + 1) then some ' '
    else none

/-- the rows of all diagnostics whose message is written under line `l` -/
def caretRows (ds : List Diag) (l : Nat) (offs : List Nat) : List (Nat × List Char) :=
  ((List.range ds.length).filter fun i => linesLast (diagPositions (ds.getD i default)) = l).map fun i =>
    (i, caretRow (diagPositions (ds.getD i default)) (pointsDisabled ds i) l offs)

end Pint.Inject
