/-
  Model of the exit-status decision of `pint lint` / `pint ci`
  (cmd/pint/lint.go actionLint, cmd/pint/ci.go actionCI, reporter.Summary.Report / CountBySeverity).
  The comparison operators and the severity order are REGENERATED facts (Gen/Severity.lean).
-/
import PintModel.Gen.Severity
namespace Pint.Exit

/-- Go's binary comparison named by its token -/
def cmpOp (op : String) (a b : Nat) : Bool :=
  if op = ">=" then decide (a ≥ b)
  else if op = ">" then decide (a > b)
  else if op = "<=" then decide (a ≤ b)
  else if op = "<" then decide (a < b)
  else if op = "==" then decide (a = b)
  else if op = "!=" then decide (a ≠ b)
  else false

/-- numeric value of a `Severity` constant = its position in the iota block -/
def rank (name : String) : Option Nat :=
  let i := Gen.Severity.order.idxOf name
  if i < Gen.Severity.order.length then some i else none

/-- `ParseSeverity` through the generated switch table -/
def parseSeverity (s : String) : Option Nat :=
  match Gen.Severity.parseTable.lookup s with
  | some c => rank c
  | none => none

/-- a report as far as the exit status is concerned: its severity (numeric) and `key`, which stands
    for every other field `Report.isEqual` compares -/
structure Rep where
  sev : Nat
  key : Nat
  deriving DecidableEq, Repr

/-- `Summary.Report`: append unless an equal report is already there -/
def insert (acc : List Rep) (r : Rep) : List Rep := if acc.contains r then acc else acc ++ [r]
def insertAll (rs : List Rep) : List Rep := rs.foldl insert []

/-- the `bySeverity` loop of actionLint: `failProblems` counts reports with `s OP failOn`,
    `hiddenProblems` those below `minSeverity`; the run fails iff `failProblems > 0`.
    `showDup` only reaches the console reporter. -/
structure LintOutcome where
  fail : Bool
  hidden : Nat
  deriving DecidableEq, Repr

def lint (stream : List Rep) (failOn minSev : Nat) (_showDup : Bool) : LintOutcome :=
  let reports := insertAll stream
  let failProblems := (reports.filter fun r => cmpOp Gen.Severity.lint.op r.sev failOn).length
  let hidden := (reports.filter fun r => decide (r.sev < minSev)).length
  ⟨decide (failProblems > 0), hidden⟩

/-- actionCI: `problemsFound` iff some severity present in `CountBySeverity` satisfies `s OP minSeverity` -/
def ci (stream : List Rep) (failOn : Nat) : Bool :=
  (insertAll stream).any fun r => cmpOp Gen.Severity.ci.op r.sev failOn

end Pint.Exit
