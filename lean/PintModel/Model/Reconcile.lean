/-
  Model of internal/reporter/comments.go: updateDestination (create / delete reconciliation),
  dedupReports (grouping key) and the line choice of makeComments.
  Platform behaviour enters through `isEq` (Commenter.IsEqual), `canDelete` and the budget
  (CanCreate(created) = created < budget), and `store` (what the platform lists back for a comment
  pint created).
-/
namespace Pint.Reconcile

variable {P E : Type}

/-- the create loop: pending comments in order; `created` counts creations of this run -/
def creates (isEq : E → P → Bool) (existing : List E) (budget : Nat) : List P → Nat → List P
  | [], _ => []
  | p :: ps, created =>
    if existing.any (fun e => isEq e p) then creates isEq existing budget ps created
    else if created < budget then p :: creates isEq existing budget ps (created + 1)
    else creates isEq existing budget ps created

/-- the delete loop -/
def deletes (isEq : E → P → Bool) (canDelete : E → Bool) (existing : List E) (pending : List P) : List E :=
  existing.filter fun e => !(pending.any fun p => isEq e p) && canDelete e

/-- the comment store after one run -/
def step (isEq : E → P → Bool) (canDelete : E → Bool) (store : P → E) (budget : Nat) (pending : List P) (existing : List E) : List E :=
  (existing.filter fun e => !(!(pending.any fun p => isEq e p) && canDelete e)) ++
    (creates isEq existing budget pending 0).map store

/-- number of pending comments not covered by an existing one -/
def uncovered (isEq : E → P → Bool) (existing : List E) (pending : List P) : Nat :=
  (pending.filter fun p => !(existing.any fun e => isEq e p)).length

/-- `k` runs with the same pending comments -/
def runs (isEq : E → P → Bool) (canDelete : E → Bool) (store : P → E) (budget : Nat) (pending : List P) : Nat → List E → List E
  | 0, ex => ex
  | k + 1, ex => runs isEq canDelete store budget pending k (step isEq canDelete store budget pending ex)

/-- makeComments: the comment goes on the last modified line of the problem's range, else on its last line -/
def pickLine (first last : Nat) (modified : List Nat) : Nat :=
  let rec go (fuel : Nat) (i : Nat) : Nat :=
    match fuel with
    | 0 => last
    | fuel + 1 => if i < first then last else if modified.contains i then i else if i = 0 then last else go fuel (i - 1)
  go (last - first + 1) last

/-- the grouping key of dedupReports -/
structure GKey where
  sev : Nat
  reporter : String
  path : String
  first : Nat
  last : Nat
  anchor : Nat
  deriving DecidableEq, Repr

structure Rep where
  key : GKey
  summary : String
  details : String
  isDup : Bool
  deriving DecidableEq, Repr

/-- `dedupReports` -/
def addReport (dst : List (List Rep)) (r : Rep) : List (List Rep) :=
  match dst with
  | [] => [[r]]
  | g :: rest =>
    match g with
    | [] => g :: addReport rest r
    | h :: _ =>
      if h.key = r.key then
        (if h.summary = r.summary && h.details = r.details then g else g ++ [r]) :: rest
      else g :: addReport rest r

def dedupReports (src : List Rep) (showDup : Bool) : List (List Rep) :=
  src.foldl (fun dst r => if !showDup && r.isDup then dst else addReport dst r) []

end Pint.Reconcile
