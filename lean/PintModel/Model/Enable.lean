/-
  Model of the enable decision:
    internal/config/match.go      Match.IsMatch, MatchLabel/MatchAnnotation.isMatching, durationMatch.isMatch, stateMatches
    internal/config/parsed_rule.go isMatch, defaultRuleMatch, defaultMatchStates, parsedRule.isEnabled
    internal/config/rule.go       isDisabledForRule, isEnabled
    internal/config/config.go     GetChecksForEntry (the filtering loop), DisableOnlineChecks
  Regexp matching (`strictRegex(p).MatchString(s)`) is the parameter `re`; check bodies are not modelled.
-/
namespace Pint.Enable

inductive State where
  | unknown | noop | added | modified | removed | moved
  deriving DecidableEq, Repr, Inhabited

inductive Kind where
  | alerting | recording | invalid
  deriving DecidableEq, Repr, Inhabited

/-- duration comparison of `match { for = "> 5m" }` -/
inductive DurOp where
  | lt | le | eq | ne | ge | gt
  deriving DecidableEq, Repr, Inhabited

def DurOp.holds : DurOp → Nat → Nat → Bool     -- rule's duration, configured duration
  | .lt, d, c => decide (d < c) | .le, d, c => decide (d ≤ c) | .eq, d, c => decide (d = c)
  | .ne, d, c => decide (d ≠ c) | .ge, d, c => decide (d ≥ c) | .gt, d, c => decide (d > c)

/-- a rule's `for` / `keep_firing_for`: absent, present but unparsable, or a duration -/
inductive RuleDur where
  | absent | unparsable | dur (d : Nat)
  deriving DecidableEq, Repr, Inhabited

structure Entry where
  path : String
  kind : Kind
  name : String
  labels : List (String × String)               -- Entry.Labels(): group labels merged with rule labels
  annotations : Option (List (String × String)) -- none: not alerting or no annotations block
  forDur : RuleDur
  keepFiringFor : RuleDur
  state : State
  fileDisabled : List String                    -- Entry.DisabledChecks (file/disable + live file/snooze)
  ruleDisable : List String                     -- `# pint disable X` on the rule
  ruleSnooze : List (Bool × String)             -- `# pint snooze T X`: (T is in the future, X)
  hasError : Bool                               -- PathError or Rule.Error
  deriving Repr, Inhabited

structure Match where
  command : Option String := none
  states : List String := []
  kind : String := ""
  path : String := ""
  name : String := ""
  label : Option (String × String) := none
  annotation : Option (String × String) := none
  for_ : Option (DurOp × Nat) := none           -- parsed by parseDurationMatch (validated at load)
  keepFiringFor : Option (DurOp × Nat) := none
  deriving Repr, Inhabited

abbrev Re := String → String → Bool

def stateMatches (states : List String) (st : State) : Bool :=
  states.any fun s =>
    s = "any" || (s = "added" && st = .added) || (s = "modified" && st = .modified) ||
    (s = "renamed" && st = .moved) || (s = "removed" && st = .removed) || (s = "unmodified" && st = .noop)

def durCond (c : Option (DurOp × Nat)) (isAlerting : Bool) (d : RuleDur) : Bool :=
  match c with
  | none => true
  | some (op, lim) =>
    if isAlerting then
      match d with
      | .absent => false
      | .unparsable => false          -- not a duration: satisfies no duration condition (fix 9516199)
      | .dur v => op.holds v lim
    else false

/-- `Match.IsMatch` -/
def Match.isMatch (re : Re) (m : Match) (cmd : String) (e : Entry) : Bool :=
  (match m.command with | some c => decide (cmd = c) | none => true) &&
  (m.states.isEmpty || stateMatches m.states e.state) &&
  (m.kind = "" || ((e.kind ≠ .alerting || m.kind = "alerting") && (e.kind ≠ .recording || m.kind = "recording"))) &&
  (m.path = "" || re m.path e.path) &&
  (m.name = "" || e.kind = .invalid || re m.name e.name) &&
  (match m.label with | some (k, v) => e.labels.any (fun l => re k l.1 && re v l.2) | none => true) &&
  (match m.annotation with
    | some (k, v) => (match e.annotations with | some as => e.kind = .alerting && as.any (fun l => re k l.1 && re v l.2) | none => false)
    | none => true) &&
  durCond m.for_ (e.kind = .alerting) e.forDur &&
  durCond m.keepFiringFor (e.kind = .alerting) e.keepFiringFor

/-- `isMatch(ctx, e, ignore, match)` -/
def isMatch (re : Re) (cmd : String) (e : Entry) (ignore match_ : List Match) : Bool :=
  !(ignore.any fun i => i.isMatch re cmd e) && (match_.isEmpty || match_.any fun m => m.isMatch re cmd e)

def defaultMatchStates (cmd : String) : List String :=
  if cmd = "ci" then ["added", "modified", "renamed", "removed"] else ["any"]

/-- `defaultRuleMatch` -/
def defaultRuleMatch (ms : List Match) (dflt : List String) : List Match :=
  if ms.isEmpty then [{ states := dflt }]
  else ms.map fun m => if m.states.isEmpty then { m with states := dflt } else m

/-- one check instance as registered by baseRules / parseRule -/
structure Inst where
  name : String            -- name it is registered under
  str : String             -- check.String()
  reporter : String        -- check.Reporter()
  states : List State      -- Meta().States
  always : Bool            -- Meta().AlwaysEnabled
  tags : List String
  locked : Bool := false
  match_ : List Match := []
  ignore : List Match := []
  deriving Repr, Inhabited

/-- a `rule {}` block as far as enable/disable is concerned -/
structure CfgRule where
  match_ : List Match
  ignore : List Match
  enable : List String
  disable : List String
  deriving Repr, Inhabited

def tagged (name : String) (tags : List String) : List String := tags.map fun t => name ++ "(+" ++ t ++ ")"

/-- `isDisabledForRule` -/
def isDisabledForRule (e : Entry) (i : Inst) : Bool :=
  let ms := i.name :: i.str :: tagged i.name i.tags
  e.ruleDisable.any (fun d => ms.contains d) ||
  e.ruleSnooze.any (fun s => s.1 && ms.contains s.2)

/-- `isEnabled(enabledChecks, disabledChecks, rule, name, check, promTags, locked)` -/
def isEnabledBy (enabled disabled : List String) (e : Entry) (i : Inst) : Bool :=
  if i.always then true
  else if !i.locked && isDisabledForRule e i then false
  else if disabled.any (fun c => c = i.name || c = i.str || (tagged i.name i.tags).contains c) then false
  else if enabled.isEmpty then true
  else enabled.contains i.name

/-- `parsedRule.isEnabled` ; `dup` = a check with the same String() is already enabled -/
def instEnabled (re : Re) (cmd : String) (enabled disabled : List String) (rules : List CfgRule)
    (dup : Bool) (e : Entry) (i : Inst) : Bool :=
  if !i.states.contains e.state then false
  else if !isEnabledBy enabled e.fileDisabled e i then false
  else
    let matching := rules.filter fun r => isMatch re cmd e r.ignore r.match_
    -- the loop returns false at the first matching rule that disables; enable is remembered
    let rec go (rs : List CfgRule) (en : Bool) : Option Bool :=
      match rs with
      | [] => some en
      | r :: rest => if r.disable.contains i.name then none else go rest (en || r.enable.contains i.name)
    match go matching false with
    | none => false
    | some true => true
    | some false =>
      if !isEnabledBy enabled disabled e i then false
      else !dup

/-- the filtering loop of `GetChecksForEntry` over the already constructed instance list -/
def selectFrom (re : Re) (cmd : String) (enabled disabled : List String) (rules : List CfgRule) (e : Entry) :
    List Inst → List Inst → List Inst
  | [], acc => acc
  | i :: rest, acc =>
    if isMatch re cmd e i.ignore i.match_ && instEnabled re cmd enabled disabled rules ((acc.map (·.str)).contains i.str) e i
    then selectFrom re cmd enabled disabled rules e rest (acc ++ [i])
    else selectFrom re cmd enabled disabled rules e rest acc

def getChecks (re : Re) (cmd : String) (enabled disabled : List String) (rules : List CfgRule) (e : Entry)
    (insts : List Inst) : List Inst :=
  selectFrom re cmd enabled disabled rules e insts []

/-- `DisableOnlineChecks` -/
def disableOnline (online disabled : List String) : List String :=
  online.foldl (fun d n => if d.contains n then d else d ++ [n]) disabled

end Pint.Enable

namespace Pint.Enable
/-- `YamlMap.setValue`: overwrite the first item with that key, else append -/
def setValue : List (String × String) → String × String → List (String × String)
  | [], kv => [kv]
  | p :: rest, kv => if p.1 = kv.1 then (p.1, kv.2) :: rest else p :: setValue rest kv

/-- `parser.MergeMaps(group.Labels, rule.Labels).Items` as used by `Entry.Labels()` (pure) -/
def mergeLabels (group rule : List (String × String)) : List (String × String) := rule.foldl setValue group
end Pint.Enable
