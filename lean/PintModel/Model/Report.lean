/-
  Model of internal/reporter/reporter.go: cmpReports / cmpRules / cmpDiagnostics (one total comparator, after the
  C11 `fix:` commit), Report.isEqual (= the comparator says 0), Summary.Report (insertion-time de-dup),
  SortReports (diagnostics sort + stable report sort), isSameIssue, Dedup.
  Strings are order-preserving numeric ranks (the harness ranks them).
-/
namespace Pint.Report

structure Diag where
  firstCol : Int
  lastCol : Int
  msg : Nat
  deriving DecidableEq, Repr, Inhabited

structure Rep where
  pathName : Nat
  pathTarget : Nat
  owner : Nat
  pFirst : Int          -- Problem.Lines
  pLast : Int
  rFirst : Int          -- Rule.Lines
  rLast : Int
  ruleName : Nat
  ruleKind : Nat        -- rank of (alerting, recording, error line, error details, error set, error text), in cmpRules' order
  reporter : Nat
  summary : Nat
  details : Nat
  anchor : Nat
  sev : Nat
  diags : List Diag
  deriving DecidableEq, Repr, Inhabited

def cmpInt (a b : Int) : Int := if a < b then -1 else if a > b then 1 else 0
def cmpNat (a b : Nat) : Int := if a < b then -1 else if a > b then 1 else 0
/-- `cmp.Or` -/
def orElse (a b : Int) : Int := if a ≠ 0 then a else b

/-- `cmpDiags`: first column DEscending, then last column, then message -/
def cmpDiags (a b : Diag) : Int :=
  orElse (cmpInt b.firstCol a.firstCol) (orElse (cmpInt a.lastCol b.lastCol) (cmpNat a.msg b.msg))

def insertBy {α} (le : α → α → Bool) (x : α) : List α → List α
  | [] => [x]
  | y :: rest => if le y x then y :: insertBy le x rest else x :: y :: rest

/-- a stable insertion sort: equal elements keep their input order (what slices.SortStableFunc guarantees) -/
def stableSort {α} (le : α → α → Bool) (l : List α) : List α := l.foldl (fun acc x => insertBy le x acc) []

def sortDiags (ds : List Diag) : List Diag := stableSort (fun a b => decide (cmpDiags b a ≥ 0)) ds

/-- element-wise, then by length: `for i := range min(len) { if c != 0 return c }; return cmp.Compare(len(sa), len(sb))` -/
def cmpList {α} (c : α → α → Int) : List α → List α → Int
  | [], [] => 0
  | [], _ :: _ => -1
  | _ :: _, [] => 1
  | x :: xs, y :: ys => orElse (c x y) (cmpList c xs ys)

/-- `cmpDiagnostics`: sorted copies compared as lists -/
def cmpDiagnostics (sa sb : List Diag) : Int := cmpList cmpDiags (sortDiags sa) (sortDiags sb)

/-- `cmpRules` -/
def cmpRules (a b : Rep) : Int :=
  orElse (cmpInt a.rFirst b.rFirst) <| orElse (cmpInt a.rLast b.rLast) <| orElse (cmpNat a.ruleName b.ruleName) <|
  cmpNat a.ruleKind b.ruleKind

/-- `cmpReports`: the comparator of SortReports, and of isEqual -/
def cmpReports (a b : Rep) : Int :=
  orElse (cmpNat a.pathName b.pathName) <| orElse (cmpInt a.pFirst b.pFirst) <| orElse (cmpInt a.pLast b.pLast) <|
  orElse (cmpNat a.sev b.sev) <| orElse (cmpNat a.reporter b.reporter) <| orElse (cmpNat a.summary b.summary) <|
  orElse (cmpDiagnostics a.diags b.diags) <| orElse (cmpNat a.details b.details) <| orElse (cmpNat a.anchor b.anchor) <|
  orElse (cmpNat a.owner b.owner) <| orElse (cmpNat a.pathTarget b.pathTarget) <| cmpRules a b

/-- `a` may stay before `b`: Go's insertion step moves `b` left only while `cmp(b, a) < 0` -/
def leRep (a b : Rep) : Bool := decide (cmpReports b a ≥ 0)

def sameDiagMessages (sa sb : List Diag) : Bool :=
  sa.length = sb.length && sa.all fun a => sb.any fun b => a.msg = b.msg

/-- `r.isEqual(nr)`: the canonical order cannot tell them apart -/
def isEqual (r nr : Rep) : Bool := decide (cmpReports r nr = 0)

/-- `Summary.Report` for one report -/
def insertRep (acc : List Rep) (r : Rep) : List Rep := if acc.any (fun er => isEqual er r) then acc else acc ++ [r]
def insertAll (stream : List Rep) : List Rep := stream.foldl insertRep []

/-- `SortReports` -/
def sortReports (l : List Rep) : List Rep :=
  stableSort leRep (l.map fun r => { r with diags := sortDiags r.diags })

def isSameIssue (r nr : Rep) : Bool :=
  nr.reporter = r.reporter && nr.summary = r.summary && nr.sev = r.sev && sameDiagMessages r.diags nr.diags

/-- `Dedup` state: per index, (isDuplicate, indices of its duplicates) -/
structure Mark where
  isDup : Bool := false
  dups : List Nat := []
  deriving DecidableEq, Repr, Inhabited

def dedupInner (reps : List Rep) (i : Nat) (ri : Rep) : List Nat → List Mark → List Mark
  | [], ms => ms
  | j :: js, ms =>
    if i = j then dedupInner reps i ri js ms
    else
      let mj := ms.getD j {}
      if mj.isDup || !mj.dups.isEmpty then dedupInner reps i ri js ms
      else if isSameIssue ri (reps.getD j default) then
        let ms1 := ms.set j { mj with isDup := true }
        let mi := ms1.getD i {}
        dedupInner reps i ri js (ms1.set i { mi with dups := mi.dups ++ [j] })
      else dedupInner reps i ri js ms

def dedupOuter (reps : List Rep) : List Nat → List Mark → List Mark
  | [], ms => ms
  | i :: is_, ms =>
    if (ms.getD i {}).isDup then dedupOuter reps is_ ms
    else dedupOuter reps is_ (dedupInner reps i (reps.getD i default) (List.range reps.length) ms)

/-- `Dedup` -/
def dedup (reps : List Rep) : List Mark := dedupOuter reps (List.range reps.length) (reps.map fun _ => {})

/-- the pipeline on a stream whose reports already have sorted diagnostics -/
def pipe2 (stream : List Rep) : List (Rep × Mark) :=
  let s := stableSort leRep (insertAll stream)
  s.zip (dedup s)

/-- everything the reporters and the exit status see: the sorted reports with their duplicate marks -/
def pipeline (stream : List Rep) : List (Rep × Mark) :=
  let s := sortReports (insertAll stream)
  s.zip (dedup s)

/-- decidable monitors for the two hypotheses of C11_partial -/
def eqOnB (s : List Rep) : Bool := s.all fun a => s.all fun b => !isEqual a b || decide (a = b)

def normRep (r : Rep) : Rep := { r with diags := sortDiags r.diags }

def ordOnB (s : List Rep) : Bool :=
  let n := s.map normRep
  (n.all fun a => n.all fun b => leRep a b || leRep b a) &&
  (n.all fun a => n.all fun b => n.all fun c => !(leRep a b && leRep b c) || leRep a c) &&
  (n.all fun a => n.all fun b => !(leRep a b && leRep b a) || decide (a = b))

/-- a report with the job ((entry, check) pair) that produced it and its position in that job's output -/
structure Tagged where
  rep : Rep
  job : Nat
  seq : Nat
  deriving DecidableEq, Repr

/-- monitors below are evaluated on streams whose reports are already normalised (`normT`) -/
def nrepT (x : Tagged) : Rep := x.rep

def normT (x : Tagged) : Tagged := { x with rep := normRep x.rep }

def uniqueInB (s : List Tagged) (x : Tagged) : Bool := s.all fun z => !(nrepT z == nrepT x) || z == x

def okEq (s : List Tagged) : Bool := eqOnB (s.map (·.rep))
def okTotal (s : List Tagged) : Bool := s.all fun a => s.all fun b => leRep (nrepT a) (nrepT b) || leRep (nrepT b) (nrepT a)
def okTrans (s : List Tagged) : Bool :=
  s.all fun a => s.all fun b => s.all fun c => !(leRep (nrepT a) (nrepT b) && leRep (nrepT b) (nrepT c)) || leRep (nrepT a) (nrepT c)
def okTies (s : List Tagged) : Bool :=
  s.all fun a => s.all fun b => !(leRep (nrepT a) (nrepT b) && leRep (nrepT b) (nrepT a)) ||
    (nrepT a == nrepT b || (a.job == b.job && uniqueInB s a && uniqueInB s b))
def okTags (s : List Tagged) : Bool := s.all fun a => s.all fun b => !(a.job == b.job && a.seq == b.seq) || a == b

/-- decidable monitor for the hypotheses of C11_schedules -/
def streamOkB (s : List Tagged) : Bool := okEq s && okTotal s && okTrans s && okTies s && okTags s

def validScheduleB : List Tagged → Bool
  | [] => true
  | x :: rest => (rest.all fun y => !(x.job == y.job) || decide (x.seq < y.seq)) && validScheduleB rest

end Pint.Report
