/-
  Model of internal/reporter/reporter.go: Report.isEqual, Summary.Report (insertion-time de-dup),
  SortReports (diagnostics sort + stable report sort with the Go comparator chain), isSameIssue, Dedup.
  Strings are order-preserving numeric ranks (the harness ranks them).
-/
namespace Pint.Report

structure Diag where
  firstCol : Int
  lastCol : Int
  msg : Nat
  deriving DecidableEq, Repr, Inhabited

structure Rep where
  pathName : Nat
  pathTarget : Nat
  owner : Nat
  pFirst : Int          -- Problem.Lines
  pLast : Int
  rFirst : Int          -- Rule.Lines
  rLast : Int
  ruleKind : Nat        -- alerting / recording / error identity, as compared by Rule.IsSame
  reporter : Nat
  summary : Nat
  details : Nat
  sev : Nat
  diags : List Diag
  deriving DecidableEq, Repr, Inhabited

def cmpInt (a b : Int) : Int := if a < b then -1 else if a > b then 1 else 0
def cmpNat (a b : Nat) : Int := if a < b then -1 else if a > b then 1 else 0
/-- `cmp.Or` -/
def orElse (a b : Int) : Int := if a ≠ 0 then a else b

/-- `cmpDiags`: first column DEscending, then last column, then message -/
def cmpDiags (a b : Diag) : Int :=
  orElse (cmpInt b.firstCol a.firstCol) (orElse (cmpInt a.lastCol b.lastCol) (cmpNat a.msg b.msg))

def insertBy {α} (le : α → α → Bool) (x : α) : List α → List α
  | [] => [x]
  | y :: rest => if le y x then y :: insertBy le x rest else x :: y :: rest

/-- a stable insertion sort: equal elements keep their input order (what slices.SortStableFunc guarantees) -/
def stableSort {α} (le : α → α → Bool) (l : List α) : List α := l.foldl (fun acc x => insertBy le x acc) []

def sortDiags (ds : List Diag) : List Diag := stableSort (fun a b => decide (cmpDiags b a ≥ 0)) ds

/-- `cmpDiagnostics`: −1 when the first list is empty, 1 when the second is, else compare the first diagnostics -/
def cmpDiagnostics (sa sb : List Diag) : Int :=
  match sortDiags sa, sortDiags sb with
  | [], _ => -1
  | _ :: _, [] => 1
  | a :: _, b :: _ => cmpDiags a b

/-- the comparator of SortReports -/
def cmpReports (a b : Rep) : Int :=
  orElse (cmpNat a.pathName b.pathName) <| orElse (cmpInt a.pFirst b.pFirst) <| orElse (cmpInt a.pLast b.pLast) <|
  orElse (cmpNat a.sev b.sev) <| orElse (cmpNat a.reporter b.reporter) <| orElse (cmpNat a.summary b.summary) <|
  cmpDiagnostics a.diags b.diags

/-- `a` may stay before `b`: Go's insertion step moves `b` left only while `cmp(b, a) < 0` -/
def leRep (a b : Rep) : Bool := decide (cmpReports b a ≥ 0)

def sameDiagnostics (sa sb : List Diag) : Bool :=
  sa.length = sb.length && sa.all fun a => sb.any fun b => a.firstCol = b.firstCol && a.lastCol = b.lastCol && a.msg = b.msg

def sameDiagMessages (sa sb : List Diag) : Bool :=
  sa.length = sb.length && sa.all fun a => sb.any fun b => a.msg = b.msg

/-- `r.isEqual(nr)` — note `r.Problem.Lines.Last` is compared with `nr.Rule.Lines.Last` -/
def isEqual (r nr : Rep) : Bool :=
  nr.pathTarget = r.pathTarget && nr.pathName = r.pathName && nr.owner = r.owner &&
  r.pFirst = nr.pFirst && r.pLast = nr.rLast &&
  (nr.ruleKind = r.ruleKind && nr.rFirst = r.rFirst && nr.rLast = r.rLast) &&
  nr.reporter = r.reporter && nr.summary = r.summary && sameDiagnostics nr.diags r.diags && nr.sev = r.sev

/-- `Summary.Report` for one report -/
def insertRep (acc : List Rep) (r : Rep) : List Rep := if acc.any (fun er => isEqual er r) then acc else acc ++ [r]
def insertAll (stream : List Rep) : List Rep := stream.foldl insertRep []

/-- `SortReports` -/
def sortReports (l : List Rep) : List Rep :=
  stableSort leRep (l.map fun r => { r with diags := sortDiags r.diags })

def isSameIssue (r nr : Rep) : Bool :=
  nr.reporter = r.reporter && nr.summary = r.summary && nr.sev = r.sev && sameDiagMessages r.diags nr.diags

/-- `Dedup` state: per index, (isDuplicate, indices of its duplicates) -/
structure Mark where
  isDup : Bool := false
  dups : List Nat := []
  deriving DecidableEq, Repr, Inhabited

def dedupInner (reps : List Rep) (i : Nat) (ri : Rep) : List Nat → List Mark → List Mark
  | [], ms => ms
  | j :: js, ms =>
    if i = j then dedupInner reps i ri js ms
    else
      let mj := ms.getD j {}
      if mj.isDup || !mj.dups.isEmpty then dedupInner reps i ri js ms
      else if isSameIssue ri (reps.getD j default) then
        let ms1 := ms.set j { mj with isDup := true }
        let mi := ms1.getD i {}
        dedupInner reps i ri js (ms1.set i { mi with dups := mi.dups ++ [j] })
      else dedupInner reps i ri js ms

def dedupOuter (reps : List Rep) : List Nat → List Mark → List Mark
  | [], ms => ms
  | i :: is_, ms =>
    if (ms.getD i {}).isDup then dedupOuter reps is_ ms
    else dedupOuter reps is_ (dedupInner reps i (reps.getD i default) (List.range reps.length) ms)

/-- `Dedup` -/
def dedup (reps : List Rep) : List Mark := dedupOuter reps (List.range reps.length) (reps.map fun _ => {})

/-- the pipeline on a stream whose reports already have sorted diagnostics -/
def pipe2 (stream : List Rep) : List (Rep × Mark) :=
  let s := stableSort leRep (insertAll stream)
  s.zip (dedup s)

/-- everything the reporters and the exit status see: the sorted reports with their duplicate marks -/
def pipeline (stream : List Rep) : List (Rep × Mark) :=
  let s := sortReports (insertAll stream)
  s.zip (dedup s)

/-- decidable monitors for the two hypotheses of C11_partial -/
def eqOnB (s : List Rep) : Bool := s.all fun a => s.all fun b => !isEqual a b || decide (a = b)

def normRep (r : Rep) : Rep := { r with diags := sortDiags r.diags }

def ordOnB (s : List Rep) : Bool :=
  let n := s.map normRep
  (n.all fun a => n.all fun b => leRep a b || leRep b a) &&
  (n.all fun a => n.all fun b => n.all fun c => !(leRep a b && leRep b c) || leRep a c) &&
  (n.all fun a => n.all fun b => !(leRep a b && leRep b a) || decide (a = b))

/-- a report with the job ((entry, check) pair) that produced it and its position in that job's output -/
structure Tagged where
  rep : Rep
  job : Nat
  seq : Nat
  deriving DecidableEq, Repr

/-- monitors below are evaluated on streams whose reports are already normalised (`normT`) -/
def nrepT (x : Tagged) : Rep := x.rep

def normT (x : Tagged) : Tagged := { x with rep := normRep x.rep }

def uniqueInB (s : List Tagged) (x : Tagged) : Bool := s.all fun z => !(nrepT z == nrepT x) || z == x

def okEq (s : List Tagged) : Bool := eqOnB (s.map (·.rep))
def okTotal (s : List Tagged) : Bool := s.all fun a => s.all fun b => leRep (nrepT a) (nrepT b) || leRep (nrepT b) (nrepT a)
def okTrans (s : List Tagged) : Bool :=
  s.all fun a => s.all fun b => s.all fun c => !(leRep (nrepT a) (nrepT b) && leRep (nrepT b) (nrepT c)) || leRep (nrepT a) (nrepT c)
def okTies (s : List Tagged) : Bool :=
  s.all fun a => s.all fun b => !(leRep (nrepT a) (nrepT b) && leRep (nrepT b) (nrepT a)) ||
    (nrepT a == nrepT b || (a.job == b.job && uniqueInB s a && uniqueInB s b))
def okTags (s : List Tagged) : Bool := s.all fun a => s.all fun b => !(a.job == b.job && a.seq == b.seq) || a == b

/-- decidable monitor for the hypotheses of C11_schedules -/
def streamOkB (s : List Tagged) : Bool := okEq s && okTotal s && okTrans s && okTies s && okTags s

def validScheduleB : List Tagged → Bool
  | [] => true
  | x :: rest => (rest.all fun y => !(x.job == y.job) || decide (x.seq < y.seq)) && validScheduleB rest

end Pint.Report
