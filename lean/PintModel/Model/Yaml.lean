/-
  Abstract YAML trees and the two rule-discovery walks:
    strict  : internal/parser/strict.go  parseGroups / parseGroup (which nodes reach parseRuleStrict)
    relaxed : internal/parser/parser.go  Parser.parseNode / tryParseGroup (which nodes parseRule keeps)
  Aliases are assumed unpacked (unpackNodes), mapping keys are scalar strings. Whether parseRule keeps a
  mapping (`isRule`) is carried by the node itself: both walks call the same parseRule on the same node.
  Re-parsing of multi-line scalars as embedded YAML is outside the model (scalars yield nothing).
-/
namespace Pint.Yaml

inductive Y where
  | scalar (id : Nat) (val : String)
  | seq (id : Nat) (items : List Y)
  | map (id : Nat) (isRule : Bool) (fields : List (String × Y))
  | doc (children : List Y)
  deriving Repr, Inhabited

def Y.id : Y → Nat
  | .scalar i _ => i | .seq i _ => i | .map i _ _ => i | .doc _ => 0

def Y.keeps : Y → Bool
  | .map _ r _ => r
  | _ => false

/-- `tryParseGroup`: a mapping with a non-empty scalar `name` and a `rules` key holding a sequence
    (last occurrence of either key wins) → the rules sequence's items -/
def groupName (fields : List (String × Y)) : String :=
  match fields.reverse.find? (fun f => f.1 = "name") with
  | some (_, .scalar _ v) => v
  | _ => ""

def seqItems? : Y → Option (List Y)
  | .seq _ items => some items
  | _ => none

def seqItems : Y → List Y
  | .seq _ items => items
  | _ => []

def groupRulesSeq (fields : List (String × Y)) : Option (List Y) :=
  fields.reverse.findSome? fun f => if f.1 = "rules" then seqItems? f.2 else none

def groupRules (fields : List (String × Y)) : Option (List Y) :=
  if groupName fields ≠ "" then groupRulesSeq fields else none

def keptOf (items : List Y) : List Y := items.filter Y.keeps

mutual
/-- `parseNode(node, parent, …)`: the nodes parseRule keeps, in order; `pk` is the parent key's value.
    A sequence: its items that are rules first, then whatever is found below the items that are not (after fix a449106) -/
def relaxed (pk : Option String) : Y → List Y
  | .scalar _ _ => []
  | .seq _ items =>
    if pk = some "groups" then relaxedGroups items
    else keptOf items ++ nestedOf items
  | .map _ _ fields => relaxedFields fields
  | .doc children => relaxedDocs children
/-- rules found below the items of a sequence that are not rules themselves -/
def nestedOf : List Y → List Y
  | [] => []
  | x :: rest => (if x.keeps then [] else relaxed none x) ++ nestedOf rest
def relaxedGroups : List Y → List Y
  | [] => []
  | g :: rest =>
    (match g with
     | .map _ _ fields => if groupName fields ≠ "" then (lastRules fields).getD [] else []
     | _ => []) ++ relaxedGroups rest
/-- the contribution of the last `rules` key that holds a sequence (`tryParseGroup`: the last occurrence wins) -/
def lastRules : List (String × Y) → Option (List Y)
  | [] => none
  | (k, v) :: rest =>
    (lastRules rest).or (if k = "rules" then (match v with | .seq _ items => some (keptOf items ++ nestedOf items) | _ => none) else none)
def relaxedFields : List (String × Y) → List Y
  | [] => []
  | (k, v) :: rest => relaxed (some k) v ++ relaxedFields rest
def relaxedDocs : List Y → List Y
  | [] => []
  | d :: rest => relaxed none d ++ relaxedDocs rest
end

/-- a sequence that is not a `groups` list -/
def relaxedSeq (items : List Y) : List Y := keptOf items ++ nestedOf items

/-- what one element of a `groups` sequence contributes in relaxed mode -/
def groupContribution (g : Y) : List Y :=
  match g with
  | .map _ _ fields => (match groupRules fields with | some rs => relaxedSeq rs | none => [])
  | _ => []

/-- rule nodes of one strict group mapping: every item of every `rules` sequence, kept or not -/
def strictGroupRules (fields : List (String × Y)) : List Y :=
  fields.flatMap fun f => if f.1 = "rules" then seqItems f.2 else []

/-- `parseGroups`: rule nodes handed to parseRuleStrict, in order -/
def strictRules : Y → List Y
  | .doc children => children.flatMap fun c => match c with
    | .map _ _ fields => fields.flatMap fun f => if f.1 = "groups" then (match f.2 with
        | .seq _ groups => groups.flatMap fun g => match g with | .map _ _ gf => strictGroupRules gf | _ => []
        | _ => []) else []
    | _ => []
  | _ => []

def allowedGroupKeys : List String := ["name", "interval", "query_offset", "limit", "labels", "rules", "partial_response_strategy"]

/-- the strict walk reports no file, group or rule error (structure part) -/
def groupOK : Y → Bool
  | .map _ _ fields =>
    fields.all (fun f => allowedGroupKeys.contains f.1) &&
    (fields.map (·.1)).Nodup &&
    fields.all (fun f => if f.1 = "rules" then (match f.2 with | .seq _ items => items.all Y.keeps | .scalar _ v => v = "" | _ => false) else true) &&
    (if (fields.map (·.1)).contains "rules" then fields.any (fun f => f.1 = "name" && (match f.2 with | .scalar _ v => v ≠ "" | _ => false)) else true) &&
    fields.all (fun f => if f.1 = "name" then (match f.2 with | .scalar _ v => v ≠ "" | _ => false) else true)
  | _ => false

def strictOK : Y → Bool
  | .doc children => children.all fun c => match c with
    | .map _ _ fields => fields.all fun f => f.1 = "groups" && (match f.2 with | .seq _ groups => groups.all groupOK | _ => false)
    | _ => false
  | _ => false

end Pint.Yaml
