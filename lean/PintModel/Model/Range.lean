/-
  Model of internal/promapi/range.go (sliceRange, the slice-size choice of RangeQuery) and
  internal/promapi/range_normalize.go (AppendSampleToRanges, ExpandRangesEnd, Overlaps, MergeRanges).
  Time is an `Int` count of seconds (all instants pint handles here are whole seconds; `sec = 1`).
-/
namespace Pint.Range

/-- seconds between Go's zero time (January 1, year 1 UTC) and the Unix epoch: `Time.Round` counts from there -/
def zeroOffset : Int := 62135596800

/-- Go `Time.Round(d)` for d > 0 (t in Unix seconds): nearest multiple of d since the zero time, halfway rounds up -/
def roundTime (t d : Int) : Int :=
  if d ≤ 0 then t else
  let r := (t + zeroOffset) % d
  if r + r < d then t - r else t + d - r

/-- Go `Duration.Round(m)`: nearest multiple of m, halfway away from zero (d ≥ 0 here) -/
def roundDur (d m : Int) : Int :=
  if m ≤ 0 then d else
  let r := d % m
  if r + r < m then d - r else d + m - r

structure TR where
  s : Int
  e : Int
  deriving DecidableEq, Repr, Inhabited

/-- the `for rstart.Before(end)` loop of sliceRange; fuel bounds the number of iterations -/
def sliceLoop (fuel : Nat) (rstart end_ size : Int) : List TR :=
  match fuel with
  | 0 => []
  | fuel + 1 =>
    if rstart < end_ then
      ⟨rstart, if rstart + size > end_ then end_ else rstart + size⟩ :: sliceLoop fuel (rstart + size) end_ size
    else []

/-- subtract one second from every slice end but the last -/
def trimEnds : List TR → List TR
  | [] => []
  | [x] => [x]
  | x :: y :: rest => ⟨x.s, x.e - 1⟩ :: trimEnds (y :: rest)

/-- `sliceRange(start, end, resolution, sliceSize)`; `none` stands for "does not terminate" (sliceSize ≤ 0) -/
def sliceRange (start end_ resolution size : Int) : Option (List TR) :=
  if end_ - start ≤ resolution then some [⟨start, end_⟩]
  else if size ≤ 0 then none
  else
    let rstart := roundTime start size
    let first : List TR :=
      if rstart > start then [⟨rstart - size, if rstart > end_ then end_ else rstart⟩] else []
    let fuel := ((end_ - rstart) / size + 2).toNat
    some (trimEnds (first ++ sliceLoop fuel rstart end_ size))

/-- the slice plan of `RangeQuery`: 2h rounded to the step, a single slice when that exceeds the lookback -/
def sliceSize (step : Int) : Int :=
  let q := roundDur 7200 step
  if q < step then step else q

def plan (start end_ lookback step : Int) : Option (List TR) :=
  let q := sliceSize step
  if q > lookback then some [⟨start, end_⟩] else sliceRange start end_ step q

structure MTR where
  fp : Nat
  s : Int
  e : Int
  deriving DecidableEq, Repr, Inhabited

/-- one sample against the ranges collected so far (first range of that fingerprint that takes it) -/
def appendSample (step : Int) (fp : Nat) (ts : Int) : List MTR → List MTR
  | [] => [⟨fp, ts, ts⟩]
  | r :: rest =>
    if r.fp ≠ fp then r :: appendSample step fp ts rest
    else if r.s - step ≤ ts ∧ ts ≤ r.s then { r with s := ts } :: rest
    else if r.s ≤ ts ∧ ts ≤ r.e + step then { r with e := ts } :: rest
    else r :: appendSample step fp ts rest

/-- `AppendSampleToRanges` -/
def appendSamples (step : Int) (fp : Nat) (vals : List Int) (dst : List MTR) : List MTR :=
  vals.foldl (fun d ts => appendSample step fp ts d) dst

/-- `ExpandRangesEnd` -/
def expandEnds (step : Int) (rs : List MTR) : List MTR := rs.map fun r => { r with e := r.e + (step - 1) }

def iabs (x : Int) : Int := if x < 0 then -x else x

/-- `Overlaps(a, b, step)`: the nine cases in source order -/
def overlaps (a b : MTR) (step : Int) : Option TR :=
  if a.fp ≠ b.fp then none
  else if iabs (a.s - b.s) ≤ step ∧ iabs (a.e - b.e) ≤ step then some ⟨min a.s b.s, max a.e b.e⟩
  else if a.s < b.s ∧ a.e > b.s ∧ a.e < b.e then some ⟨a.s, b.e⟩
  else if a.s > b.s ∧ a.s < b.e ∧ a.e > b.e then some ⟨b.s, a.e⟩
  else if a.s < b.s ∧ a.e < b.e ∧ iabs (a.e - b.s) ≤ step then some ⟨a.s, b.e⟩
  else if a.s > b.s ∧ a.e > b.e ∧ iabs (a.s - b.e) ≤ step then some ⟨b.s, a.e⟩
  else if a.s < b.s ∧ a.e > b.e then some ⟨a.s, a.e⟩
  else if iabs (a.s - b.s) ≤ step ∧ a.e > b.e then some ⟨min a.s b.s, a.e⟩
  else if a.s < b.s ∧ iabs (a.e - b.e) ≤ step then some ⟨a.s, max a.e b.e⟩
  else if a.s > b.s ∧ a.e < b.e then some ⟨b.s, b.e⟩
  else none

/-- inner loop of MergeRanges for one source range against the accumulated list of its fingerprint:
    every accumulated range that overlaps is replaced by the hull (the loop does not stop at the first) -/
def absorb (step : Int) (src : MTR) : List MTR → List MTR × Bool
  | [] => ([], false)
  | m :: rest =>
    let (rest', f) := absorb step src rest
    match overlaps m src step with
    | some tr => ({ m with s := tr.s, e := tr.e } :: rest', true)
    | none => (m :: rest', f)

/-- one pass over a list of one fingerprint -/
def mergePass (step : Int) : List MTR → List MTR → List MTR × Bool
  | [], acc => (acc, false)
  | src :: rest, acc =>
    let (acc', f) := absorb step src acc
    let acc'' := if f then acc' else acc ++ [src]
    let (out, g) := mergePass step rest acc''
    (out, f || g)

def insertSorted (r : MTR) : List MTR → List MTR
  | [] => [r]
  | x :: rest => if r.s ≤ x.s then r :: x :: rest else x :: insertSorted r rest

/-- `sort.Stable` by `Start` (one fingerprint) -/
def sortByStart (l : List MTR) : List MTR := l.foldr insertSorted []

mutual
/-- `MergeRanges` restricted to one fingerprint: one pass; when something merged, re-run on the result
    until stable, then `sort.Stable` (every merging level sorts its output, which matters because
    `Overlaps` is not symmetric). `fuel` bounds the recursion depth. -/
def mergeRec (step : Int) : Nat → List MTR → List MTR × Bool
  | 0, l => (l, false)
  | f + 1, l =>
    let (out, merged) := mergePass step l []
    if merged then (sortByStart (mergeLoop step f (out.length + 1) out), true) else (l, false)
termination_by f _ => (f, 0, 0)
/-- `for ok { merged[fp], ok = MergeRanges(merged[fp], step) }` -/
def mergeLoop (step : Int) : Nat → Nat → List MTR → List MTR
  | _, 0, l => l
  | f, k + 1, l =>
    let (y, ok) := mergeRec step f l
    if ok then mergeLoop step f k y else y
termination_by f k _ => (f, 1, k)
end

/-- the result for one series: merge then the final stable sort by start -/
def mergeSeries (step : Int) (l : List MTR) : List MTR :=
  sortByStart (mergeRec step (l.length + 1) l).1

end Pint.Range
