/-
Model of pint's request path to one Prometheus server (property C14).

Code modelled (`internal/promapi`):
* `keylock.go`      `partitionLocker.lock/unlock` — a caller proceeds only while no other caller holds its lock key
  (`acquire` is enabled iff the key is free: the `sync.Cond` wait loop), `release` is the deferred unlock;
* `query.go`, `config.go`, `flags.go`, `metadata.go`, `range.go` — every question takes its lock, puts ONE job on the
  queue and waits for the result (a range query does that once per slice, each slice under its own lock keyed by the
  slice's cache key; the outer lock of a range query carries no job and is not modelled);
* `prometheus.go`   `queryWorker`/`processJob` — a worker takes a job, looks the cache up, checks API support, sends,
  and on success fills the cache before answering; `concurrency` workers;
* `cache.go`        `get`/`set`/`gc` — successful answers by cache key; evictions are environment steps.

The lock key of every question is a function of its cache key (`lockOf`); that this holds for the keys the Go code
builds is decided over the regenerated table `Gen/Keys` (Props/C14).

Not modelled: goroutine scheduling below these atomic steps, the rate limiter, context cancellation, HTTP.
-/
namespace Pint.Flight

inductive Stage
  | acquired            -- lock taken, job not queued yet
  | queued
  | got                 -- a worker holds the job, before the cache lookup
  | missed              -- cache miss, before the request is sent
  | inflight            -- request at the server
  | filling (a : Nat)   -- successful answer `a` received, cache not written yet
  | delivered (r : Option Nat)   -- the caller has its result (none = error), lock still held
deriving DecidableEq, Repr, Inhabited

structure Holder where
  lk : Nat
  key : Nat
  stage : Stage
deriving DecidableEq, Repr, Inhabited

inductive Ev
  | send (k : Nat)
  | respOk (k a : Nat)
  | respErr (k : Nat)
  | evict (k : Nat)
  | deliver (k : Nat) (r : Option Nat)
deriving DecidableEq, Repr, Inhabited

structure St where
  holders : List Holder
  cache : List (Nat × Nat)
  log : List Ev            -- newest first
deriving Repr, Inhabited

def init : St := { holders := [], cache := [], log := [] }

inductive Act
  | acquire (lk key : Nat)
  | enqueue (lk : Nat)
  | take (lk : Nat)
  | hit (lk : Nat)
  | miss (lk : Nat)
  | unsupported (lk : Nat)
  | send (lk : Nat)
  | respOk (lk a : Nat)
  | respErr (lk : Nat)
  | cacheSet (lk : Nat)
  | gc (k : Nat)
  | release (lk : Nat)
deriving DecidableEq, Repr, Inhabited

def activeB : Stage → Bool
  | .got => true | .missed => true | .inflight => true | .filling _ => true | _ => false

def flyingB : Stage → Bool
  | .inflight => true | .filling _ => true | _ => false

def waitingB : Stage → Bool
  | .missed => true | .inflight => true | .filling _ => true | _ => false

def lookup (c : List (Nat × Nat)) (k : Nat) : Option Nat := (c.find? fun e => e.1 == k).map (·.2)
def cacheSet (c : List (Nat × Nat)) (k a : Nat) : List (Nat × Nat) := (k, a) :: c.filter fun e => e.1 != k
def cacheDel (c : List (Nat × Nat)) (k : Nat) : List (Nat × Nat) := c.filter fun e => e.1 != k

def setStage (lk : Nat) (s : Stage) (hs : List Holder) : List Holder :=
  hs.map fun h => if h.lk == lk then { h with stage := s } else h

def holderAt (hs : List Holder) (lk : Nat) : Option Holder := hs.find? fun h => h.lk == lk

def active (hs : List Holder) : Nat := hs.countP fun h => activeB h.stage

/-- requests at the server right now -/
def inflightKeys (s : St) : List Nat := (s.holders.filter fun h => h.stage == .inflight).map (·.key)

/-- `W` = the server's `concurrency`, `lockOf` = the lock key as a function of the cache key -/
def enabled (W : Nat) (lockOf : Nat → Nat) (s : St) : Act → Bool
  | .acquire lk key => lockOf key == lk && !(s.holders.any fun h => h.lk == lk)
  | .enqueue lk => (holderAt s.holders lk).any fun h => h.stage == .acquired
  | .take lk => ((holderAt s.holders lk).any fun h => h.stage == .queued) && active s.holders < W
  | .hit lk => (holderAt s.holders lk).any fun h => h.stage == .got && (lookup s.cache h.key).isSome
  | .miss lk => (holderAt s.holders lk).any fun h => h.stage == .got && (lookup s.cache h.key).isNone
  | .unsupported lk => (holderAt s.holders lk).any fun h => h.stage == .missed
  | .send lk => (holderAt s.holders lk).any fun h => h.stage == .missed
  | .respOk lk _ => (holderAt s.holders lk).any fun h => h.stage == .inflight
  | .respErr lk => (holderAt s.holders lk).any fun h => h.stage == .inflight
  | .cacheSet lk => (holderAt s.holders lk).any fun h => match h.stage with | .filling _ => true | _ => false
  | .gc _ => true
  | .release lk => (holderAt s.holders lk).any fun h => match h.stage with | .delivered _ => true | _ => false

def keyAt (s : St) (lk : Nat) : Nat := ((holderAt s.holders lk).map (·.key)).getD 0

def apply (s : St) : Act → St
  | .acquire lk key => { s with holders := { lk := lk, key := key, stage := .acquired } :: s.holders }
  | .enqueue lk => { s with holders := setStage lk .queued s.holders }
  | .take lk => { s with holders := setStage lk .got s.holders }
  | .hit lk =>
    { s with holders := setStage lk (.delivered (lookup s.cache (keyAt s lk))) s.holders,
             log := .deliver (keyAt s lk) (lookup s.cache (keyAt s lk)) :: s.log }
  | .miss lk => { s with holders := setStage lk .missed s.holders }
  | .unsupported lk => { s with holders := setStage lk (.delivered none) s.holders, log := .deliver (keyAt s lk) none :: s.log }
  | .send lk => { s with holders := setStage lk .inflight s.holders, log := .send (keyAt s lk) :: s.log }
  | .respOk lk a => { s with holders := setStage lk (.filling a) s.holders, log := .respOk (keyAt s lk) a :: s.log }
  | .respErr lk => { s with holders := setStage lk (.delivered none) s.holders, log := .respErr (keyAt s lk) :: s.log }
  | .cacheSet lk =>
    match (holderAt s.holders lk).map (·.stage) with
    | some (Stage.filling a) =>
      { holders := setStage lk (.delivered (some a)) s.holders, cache := cacheSet s.cache (keyAt s lk) a,
        log := .deliver (keyAt s lk) (some a) :: s.log }
    | _ => s
  | .gc k => { s with cache := cacheDel s.cache k, log := .evict k :: s.log }
  | .release lk => { s with holders := s.holders.filter fun h => h.lk != lk }

/-- run a list of actions, refusing the first one that is not enabled -/
def runActs (W : Nat) (lockOf : Nat → Nat) : St → List Act → Option St
  | s, [] => some s
  | s, a :: as => if enabled W lockOf s a then runActs W lockOf (apply s a) as else none

/-- reachable states -/
inductive Reach (W : Nat) (lockOf : Nat → Nat) : St → Prop
  | init : Reach W lockOf init
  | step {s : St} (a : Act) : Reach W lockOf s → enabled W lockOf s a = true → Reach W lockOf (apply s a)

/-- the last thing that happened to question `k` at the server is a request that has not failed and whose answer has
not been evicted -/
def fresh (k : Nat) : List Ev → Bool
  | [] => false
  | .send k' :: rest => if k' == k then true else fresh k rest
  | .respErr k' :: rest => if k' == k then false else fresh k rest
  | .evict k' :: rest => if k' == k then false else fresh k rest
  | _ :: rest => fresh k rest

end Pint.Flight
