/-
  Model of internal/diags/position.go: appendPosition, NewPositionRange, readRange, PositionRanges.Len/Lines.
  Lines and values are byte lists (`List Nat`, every element < 256); positions are 1-indexed.
  Index expressions that would panic in Go are unreachable here by construction of the recursion
  (see Props/C02 for the in-file theorems).
-/
namespace Pint.Position

structure PR where
  line : Nat
  first : Nat
  last : Nat
  deriving DecidableEq, Repr, Inhabited

/-- `appendPosition` on a list kept most-recent-first -/
def appendPos (src : List PR) (line col : Nat) : List PR :=
  match src with
  | [] => [⟨line, col, col⟩]
  | p :: rest => if p.line = line ∧ p.last + 1 = col then { p with last := col } :: rest else ⟨line, col, col⟩ :: p :: rest

def countLeadingSpace : List Nat → Nat
  | [] => 0
  | c :: cs => if c = 32 then 1 + countLeadingSpace cs else 0

/-- the inner `for gotIndex, got := range line[columnIndex-1:]` loop; returns (needIndex, offsets, reachedEND) -/
def scanLine (value : List Nat) (lineNo colStart : Nat) : List Nat → Nat → Nat → List PR → Nat × List PR × Bool
  | [], _, ni, offs => (ni, offs, false)
  | got :: rest, gi, ni, offs =>
    if value[ni]? = some got then
      let offs' := appendPos offs lineNo (colStart + gi)
      if ni + 1 ≥ value.length then (ni + 1, offs', true) else scanLine value lineNo colStart rest (gi + 1) (ni + 1) offs'
    else scanLine value lineNo colStart rest (gi + 1) ni offs

/-- the "append new line but only if we already have any tokens" step -/
def prevBreak (offs : List PR) (li prevLen : Nat) : List PR :=
  if offs.isEmpty then offs else appendPos offs (li - 1) (prevLen + 1)

/-- one line of the outer loop up to the `NEXT` label: column adjustment and the byte scan -/
def lineStep (value : List Nat) (li col ni : Nat) (offs1 : List PR) (line : List Nat) : Nat × List PR × Bool :=
  if line.length = 0 then (ni, offs1, false)
  else
    let col1 := min line.length col
    let ls := countLeadingSpace (line.drop (col1 - 1))
    let vs := countLeadingSpace (value.drop ni)
    let col2 := if ls > vs then col1 + (ls - vs) else col1
    scanLine value li col2 (line.drop (col2 - 1)) 0 ni offs1

/-- the outer `for lineIndex <= len(lines)` loop, one iteration per remaining line -/
def nprLoop (value : List Nat) (minCol : Nat) : List (List Nat) → Nat → Nat → Nat → Nat → List PR → List PR
  | [], _, _, _, _, offs => offs
  | line :: rest, li, prevLen, col, ni, offs =>
    let r := lineStep value li col ni (prevBreak offs li prevLen) line
    if r.2.2 then r.2.1
    else
      let need := value[r.1]?
      if need = some 32 ∨ need = some 10 then
        (if r.1 + 1 ≥ value.length then r.2.1 else nprLoop value minCol rest (li + 1) line.length minCol (r.1 + 1) r.2.1)
      else nprLoop value minCol rest (li + 1) line.length minCol r.1 r.2.1

/-- `NewPositionRange(lines, val, minColumn)`; result oldest-first. When the value is not found in the
    source lines the node's own start, clamped into the file, is returned. -/
def newPositionRange (lines : List (List Nat)) (value : List Nat) (vLine vCol minCol : Nat) : List PR :=
  if value.length = 0 then [⟨vLine, vCol, vCol⟩]
  else
    let offs := (nprLoop value minCol (lines.drop (vLine - 1)) vLine ((lines.getD (vLine - 2) []).length) vCol 0 []).reverse
    if offs.isEmpty then [⟨max (min vLine lines.length) 1, vCol, vCol⟩] else offs

def posLen (prs : List PR) : Nat := (prs.map fun p => p.last + 1 - p.first).sum

/-- every (line, column) cell a list of position ranges covers, in order -/
def cells (prs : List PR) : List (Nat × Nat) :=
  prs.flatMap fun p => (List.range (p.last + 1 - p.first)).map fun k => (p.line, p.first + k)

/-- rebuild ranges from cells with `appendPosition` (adjacent cells of one line are merged) -/
def compress (cs : List (Nat × Nat)) : List PR := (cs.foldl (fun acc c => appendPos acc c.1 c.2) []).reverse

/-- `readRange(firstColumn, lastColumn, prs)`: the cells whose 1-based index lies in [first, last] -/
def readRange (first last : Nat) (prs : List PR) : List PR :=
  compress (((cells prs).drop (first - 1)).take (last - (first - 1)))

/-- the byte at a cell; column `len+1` of a line reads as the line break (byte 10) -/
def cellByte (lines : List (List Nat)) (c : Nat × Nat) : Nat := (lines.getD (c.1 - 1) []).getD (c.2 - 1) 10

/-- the file text a list of positions points at -/
def readback (lines : List (List Nat)) (prs : List PR) : List Nat := (cells prs).map (cellByte lines)

end Pint.Position
