/-
  Model of internal/diags/position.go: appendPosition, NewPositionRange, readRange, PositionRanges.Len/Lines.
  Lines and values are byte lists (`List Nat`, every element < 256); positions are 1-indexed.
  Index expressions that would panic in Go are unreachable here by construction of the recursion
  (see Props/C02 for the in-file theorems).
-/
namespace Pint.Position

structure PR where
  line : Nat
  first : Nat
  last : Nat
  deriving DecidableEq, Repr, Inhabited

/-- `appendPosition` on a list kept most-recent-first -/
def appendPos (src : List PR) (line col : Nat) : List PR :=
  match src with
  | [] => [⟨line, col, col⟩]
  | p :: rest => if p.line = line ∧ p.last + 1 = col then { p with last := col } :: rest else ⟨line, col, col⟩ :: p :: rest

def countLeadingSpace : List Nat → Nat
  | [] => 0
  | c :: cs => if c = 32 then 1 + countLeadingSpace cs else 0

/-- the inner `for gotIndex, got := range line[columnIndex-1:]` loop; returns (needIndex, offsets, reachedEND) -/
def scanLine (value : List Nat) (lineNo colStart : Nat) : List Nat → Nat → Nat → List PR → Nat × List PR × Bool
  | [], _, ni, offs => (ni, offs, false)
  | got :: rest, gi, ni, offs =>
    if value[ni]? = some got then
      let offs' := appendPos offs lineNo (colStart + gi)
      if ni + 1 ≥ value.length then (ni + 1, offs', true) else scanLine value lineNo colStart rest (gi + 1) (ni + 1) offs'
    else scanLine value lineNo colStart rest (gi + 1) ni offs

/-- the outer `for lineIndex <= len(lines)` loop, one iteration per remaining line -/
def nprLoop (value : List Nat) (minCol : Nat) : List (List Nat) → Nat → Nat → Nat → Nat → List PR → List PR
  | [], _, _, _, _, offs => offs
  | line :: rest, li, prevLen, col, ni, offs =>
    let offs1 := if offs.isEmpty then offs else appendPos offs (li - 1) (prevLen + 1)
    let r : Nat × List PR × Bool :=
      if line.length = 0 then (ni, offs1, false)
      else
        let col1 := min line.length col
        let ls := countLeadingSpace (line.drop (col1 - 1))
        let vs := countLeadingSpace (value.drop ni)
        let col2 := if ls > vs then col1 + (ls - vs) else col1
        scanLine value li col2 (line.drop (col2 - 1)) 0 ni offs1
    if r.2.2 then r.2.1
    else
      let need := value[r.1]?
      if need = some 32 ∨ need = some 10 then
        (if r.1 + 1 ≥ value.length then r.2.1 else nprLoop value minCol rest (li + 1) line.length minCol (r.1 + 1) r.2.1)
      else nprLoop value minCol rest (li + 1) line.length minCol r.1 r.2.1

/-- `NewPositionRange(lines, val, minColumn)`; result oldest-first -/
def newPositionRange (lines : List (List Nat)) (value : List Nat) (vLine vCol minCol : Nat) : List PR :=
  if value.length = 0 then [⟨vLine, vCol, vCol⟩]
  else (nprLoop value minCol (lines.drop (vLine - 1)) vLine ((lines.getD (vLine - 2) []).length) vCol 0 []).reverse

def posLen (prs : List PR) : Nat := (prs.map fun p => p.last + 1 - p.first).sum

/-- `readRange(firstColumn, lastColumn, prs)`: the positions of value offsets first..last (1-indexed) -/
def readRangeGo (first last : Nat) : List PR → Nat → List PR → List PR
  | [], _, out => out
  | p :: rest, idx, out =>
    -- columns p.first .. p.last, each advancing idx
    let n := p.last + 1 - p.first
    let out' := (List.range n).foldl (fun o k => if idx + k + 1 ≥ first ∧ idx + k + 1 ≤ last then appendPos o p.line (p.first + k) else o) out
    readRangeGo first last rest (idx + n) out'

def readRange (first last : Nat) (prs : List PR) : List PR := (readRangeGo first last prs 0 []).reverse

/-- the file text a list of positions points at; column `len+1` of a line reads as the line break (byte 10) -/
def readback (lines : List (List Nat)) (prs : List PR) : List Nat :=
  prs.flatMap fun p =>
    let l := lines.getD (p.line - 1) []
    (List.range (p.last + 1 - p.first)).map fun k => l.getD (p.first + k - 1) 10

end Pint.Position
