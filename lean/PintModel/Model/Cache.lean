/-
Model of `internal/promapi/cache.go` `queryCache` (get / set / gc) with an explicit clock (property C14: "a successful
answer is reused for its cache lifetime").  Times and durations are natural numbers (nanoseconds in the run).
-/
namespace Pint.Cache

structure Entry where
  key : Nat
  val : Nat
  expires : Option Nat    -- none = no expiry (ttl ≤ 0)
  lastGet : Nat
deriving DecidableEq, Repr, Inhabited

structure Cache where
  now : Nat
  maxStale : Nat
  entries : List Entry
  evictions : Nat
deriving Repr, Inhabited

def empty (maxStale start : Nat) : Cache := { now := start, maxStale := maxStale, entries := [], evictions := 0 }

def advance (c : Cache) (d : Nat) : Cache := { c with now := c.now + d }

def find (c : Cache) (k : Nat) : Option Entry := c.entries.find? fun e => e.key == k

/-- `expiresAt.Before(now)` for an entry that has an expiry -/
def expired (c : Cache) (e : Entry) : Bool := match e.expires with | some x => x < c.now | none => false

/-- `get`: an entry past its lifetime is dropped and counts as a miss (fix 926463a; before it expiry was only looked at
by `gc`); a hit refreshes `lastGet` -/
def look (c : Cache) (k : Nat) : Cache × Option Nat :=
  match find c k with
  | none => (c, none)
  | some e =>
    if expired c e then ({ c with entries := c.entries.filter fun x => x.key != k, evictions := c.evictions + 1 }, none)
    else ({ c with entries := c.entries.map fun x => if x.key == k then { x with lastGet := c.now } else x }, some e.val)

/-- `set`: replaces the entry; `lastGet` is the time of the write, expiry only for a positive ttl -/
def put (c : Cache) (k v ttl : Nat) : Cache :=
  { c with entries := { key := k, val := v, expires := if ttl > 0 then some (c.now + ttl) else none, lastGet := c.now } ::
      c.entries.filter fun e => e.key != k }

/-- what `gc` throws away: expired (`expiresAt.Before(now)`) or not read for `maxStale` -/
def dead (c : Cache) (e : Entry) : Bool :=
  (match e.expires with | some x => x < c.now | none => false) || c.now - e.lastGet ≥ c.maxStale

def sweep (c : Cache) : Cache :=
  { c with entries := c.entries.filter fun e => !dead c e, evictions := c.evictions + (c.entries.filter (dead c)).length }

end Pint.Cache
