/-
Model for properties C04 / C12: which labels can the series returned by a PromQL query carry?

* `possible U e` — label-level may-semantics of Prometheus's evaluation (`promql/engine.go` v0.303: `resultMetric`,
  `VectorAnd/Or/Unless`, aggregation grouping, `dropMetricName`, `label_replace`, `absent`): every set of label
  names (over the finite universe `U`) that a series returned by `e` can carry, for *any* stored data.  It is an
  over-approximation on purpose ("whatever data is stored"): values are ignored, a join is assumed to find partners.
* `analyse e` — port of pint's `utils.LabelsSource` (`internal/parser/utils/source.go`: `walkNode`,
  `walkAggregation`, `parseAggregation`, `parsePromQLFunc`, `parseBinOps`) restricted to the label bookkeeping
  (included / excluded / guaranteed / fixed); liveness (`IsDead`, `AlwaysReturns`, constant folding) is not modelled.
* `canHave` — `Source.CanHaveLabel`.

Both are executable: the driver runs `analyse` against the real `LabelsSource` and `possible` against the real
PromQL engine.
-/
namespace Pint.LabelFlow

abbrev LS := List String

def nameL : String := "__name__"

inductive MK | eq | eqEmpty | neq | re | nre
deriving DecidableEq, Repr, Inhabited

structure Matcher where
  label : String
  kind : MK
deriving DecidableEq, Repr, Inhabited

inductive Expr
  | sel (ms : List Matcher)                       -- vector / matrix selector; matchers on labels other than __name__
  | aggBy (g : LS) (e : Expr)                     -- sum, min, max, avg, count, group, stddev, stdvar, quantile by (g)
  | aggWithout (g : LS) (e : Expr)
  | topk (e : Expr)                               -- topk / bottomk (any grouping): labels untouched
  | countValuesBy (g : LS) (v : String) (e : Expr)
  | func (e : Expr)                               -- label-preserving function (rate, abs, *_over_time, ...)
  | labelReplace (dst : String) (e : Expr)        -- label_replace / label_join
  | absent (ms : List Matcher)                    -- absent / absent_over_time of a selector
  | vec                                           -- vector(k): one series without labels
  | binOn (m : LS) (l r : Expr)                   -- arithmetic / comparison, one-to-one, on(m)
  | binIgn (m : LS) (l r : Expr)                  -- one-to-one, ignoring(m) (m = [] without modifier)
  | groupLeft (on : Bool) (m incl : LS) (l r : Expr)
  | groupRight (on : Bool) (m incl : LS) (l r : Expr)
  | setAnd (on : Bool) (m : LS) (l r : Expr)      -- and / unless
  | setOr (on : Bool) (m : LS) (l r : Expr)
  | withScalar (e : Expr)                         -- e op scalar, scalar op e, -e, (e)
deriving Repr, Inhabited

/-! ### Prometheus side -/

def subsets : LS → List LS
  | [] => [[]]
  | x :: xs => subsets xs ++ (subsets xs).map (x :: ·)

/-- a series of a selector must carry labels matched with `="v"` and cannot carry labels matched with `=""` -/
def selOK (ms : List Matcher) (ls : LS) : Bool :=
  ms.all fun m => match m.kind with
    | .eq => ls.contains m.label
    | .eqEmpty => !ls.contains m.label
    | _ => true

def eqLabels (ms : List Matcher) : LS := (ms.filter fun m => m.kind == .eq).map (·.label)

def dropName (ls : LS) : LS := ls.filter (· != nameL)

/-- both the series and its name-less variant (functions and arithmetic drop the metric name) -/
def withOrWithoutName (l : List LS) : List LS := l ++ l.map dropName

def possible (U : LS) : Expr → List LS
  | .sel ms => ((subsets U).map (nameL :: ·)).filter (selOK ms)
  | .aggBy g e => (possible U e).map fun ls => ls.filter g.contains
  | .aggWithout g e => (possible U e).map fun ls => ls.filter fun n => !g.contains n && n != nameL
  | .topk e => possible U e
  | .countValuesBy g v e => (possible U e).map fun ls => v :: ls.filter g.contains
  | .func e => withOrWithoutName (possible U e)
  | .labelReplace dst e => (possible U e).flatMap fun ls => [ls, dst :: ls, ls.filter (· != dst)]
  | .absent ms => subsets (eqLabels ms)
  | .vec => [[]]
  | .binOn m l _ => withOrWithoutName ((possible U l).map fun ls => ls.filter m.contains)
  | .binIgn m l _ => withOrWithoutName ((possible U l).map fun ls => ls.filter fun n => !m.contains n)
  | .groupLeft _ _ incl l r =>
      withOrWithoutName ((possible U l).flatMap fun a => (possible U r).map fun b =>
        (a.filter fun n => !incl.contains n) ++ b.filter incl.contains)
  | .groupRight _ _ incl l r =>
      withOrWithoutName ((possible U r).flatMap fun a => (possible U l).map fun b =>
        (a.filter fun n => !incl.contains n) ++ b.filter incl.contains)
  | .setAnd _ _ l _ => possible U l
  | .setOr _ _ l r => possible U l ++ possible U r
  | .withScalar e => withOrWithoutName (possible U e)

/-! ### pint side -/

structure Src where
  incl : LS
  excl : LS
  guar : LS
  fixed : Bool
  selGuar : LS      -- labelsFromSelectors(guaranteedLabelsMatches, s.Selector)
deriving DecidableEq, Repr, Inhabited

def canHave (s : Src) (n : String) : Bool :=
  !s.excl.contains n && (s.incl.contains n || s.guar.contains n || !s.fixed)

def appendTo (dst : LS) (vs : LS) : LS := vs.foldl (fun d v => if d.contains v then d else d ++ [v]) dst
def removeFrom (sl : LS) (vs : LS) : LS := sl.filter fun x => !vs.contains x

def includeLabel (s : Src) (ns : LS) : Src := { s with excl := removeFrom s.excl ns, incl := appendTo s.incl ns }
def guaranteeLabel (s : Src) (ns : LS) : Src := { s with excl := removeFrom s.excl ns, guar := appendTo s.guar ns }
def excludeLabel (s : Src) (ns : LS) : Src :=
  { s with excl := appendTo s.excl ns, incl := removeFrom s.incl ns, guar := removeFrom s.guar ns }

/-- `includeMatchingLabels` (after fix 32e2c6f): an on(...) label is included only if the source can have it -/
def includeMatching (s : Src) (ns : LS) : Src :=
  ns.foldl (fun s n => if canHave s n then includeLabel s [n] else s) s

/-- `maybeIncludeLabel`: if some name is not excluded, all names are appended -/
def maybeInclude (s : Src) (ns : LS) : Src :=
  if ns.any (fun n => !s.excl.contains n) then { s with incl := appendTo s.incl ns } else s

def restrictTo (s : Src) (g : LS) : Src :=
  { s with incl := s.incl.filter g.contains, guar := s.guar.filter g.contains }

/-- `excludeMetricName` (after fix 0da997e) -/
def excludeMetricName (s : Src) (by_ : Bool) (g : LS) : Src :=
  if by_ && g.contains nameL && canHave s nameL then s else excludeLabel s [nameL]

/-- `parseAggregation` for `by (g)` -/
def aggBySrc (g : LS) (s : Src) : Src :=
  if g.isEmpty then { s with incl := [], guar := [], fixed := true }
  else { restrictTo (if s.fixed then s else maybeInclude s g) g with fixed := true }

def guarKinds (m : Matcher) : Bool := m.kind == .eq || m.kind == .eqEmpty || m.kind == .re

def selSrc (ms : List Matcher) : Src :=
  let g := appendTo [] ((ms.filter guarKinds).map (·.label))
  let e := appendTo [] ((ms.filter fun m => m.kind == .eqEmpty).map (·.label))
  excludeLabel { incl := [], excl := [], guar := g, fixed := false, selGuar := g } e

/-- `guaranteeSelectorLabels` (after fix 4d7dc54) -/
def reguarantee (s : Src) : Src :=
  s.selGuar.foldl (fun s n => if canHave s n then guaranteeLabel s [n] else s) s

def absentSrc (ms : List Matcher) : Src :=
  let eqs := appendTo [] ((ms.filter fun m => m.kind == .eq || m.kind == .eqEmpty).map (·.label))
  let s0 := selSrc ms
  eqs.foldl (fun s n => guaranteeLabel (includeLabel s [n]) [n]) { s0 with fixed := true, incl := [], guar := [] }

def vecSrc : Src := { incl := [], excl := [], guar := [], fixed := true, selGuar := [] }

def analyse : Expr → List Src
  | .sel ms => [selSrc ms]
  | .aggBy g e => (analyse e).map fun s => excludeMetricName (aggBySrc g s) true g
  | .aggWithout g e => (analyse e).map fun s => excludeMetricName (excludeLabel s g) false g
  | .topk e => analyse e
  | .countValuesBy g v e =>
      -- the metric name goes first, then the parameter label (which may be __name__) is added: fix 50ef2a5
      (analyse e).map fun s => guaranteeLabel (includeLabel (excludeMetricName (aggBySrc g s) true g) [v]) [v]
  | .func e => (analyse e).map reguarantee
  | .labelReplace dst e => (analyse e).map fun s => guaranteeLabel s [dst]
  | .absent ms => [absentSrc ms]
  | .vec => [vecSrc]
  | .binOn m l _ => (analyse l).map fun s => restrictTo { includeMatching s m with fixed := true } m
  | .binIgn m l _ => (analyse l).map fun s => excludeLabel s m
  | .groupLeft on m incl l _ => (analyse l).map fun s => if on then includeMatching (includeLabel s incl) m else includeLabel s incl
  | .groupRight on m incl _ r => (analyse r).map fun s => if on then includeMatching (includeLabel s incl) m else includeLabel s incl
  | .setAnd on m l _ => (analyse l).map fun s => if on then includeMatching s m else s
  | .setOr on m l r => ((analyse l).map fun s => if on then includeMatching s m else s) ++ analyse r
  | .withScalar e => analyse e

/-- well-formedness of the fragment (until fix 50ef2a5 `count_values("__name__", ...)` had to be excluded here: pint
excluded the label it had just included) -/
def wf : Expr → Bool
  | .sel _ => true
  | .aggBy _ e => wf e
  | .aggWithout _ e => wf e
  | .topk e => wf e
  | .countValuesBy _ _ e => wf e
  | .func e => wf e
  | .labelReplace _ e => wf e
  | .absent _ => true
  | .vec => true
  | .binOn _ l r => wf l && wf r
  | .binIgn _ l r => wf l && wf r
  | .groupLeft _ _ _ l r => wf l && wf r
  | .groupRight _ _ _ l r => wf l && wf r
  | .setAnd _ _ l r => wf l && wf r
  | .setOr _ _ l r => wf l && wf r
  | .withScalar e => wf e


/-! ### C12: the data hypothesis "every stored series carries every label of the universe" -/

/-- the fragment in which every expression has one source and labels only disappear (no rewriting, no `or`, no
group modifiers, no absent / vector) -/
def frag12 : Expr → Bool
  | .sel _ => true
  | .aggBy _ e => frag12 e
  | .aggWithout _ e => frag12 e
  | .topk e => frag12 e
  | .func e => frag12 e
  | .binOn _ l _ => frag12 l
  | .binIgn _ l _ => frag12 l
  | .setAnd _ _ l _ => frag12 l
  | .withScalar e => frag12 e
  | _ => false

/-- label sets of the series `e` can return when every series of every selector carries every label of `U` -/
def full (U : LS) : Expr → List LS
  | .sel ms => if ms.any (fun m => m.kind == .eqEmpty && U.contains m.label) then [] else [nameL :: U]
  | .aggBy g e => (full U e).map fun ls => ls.filter g.contains
  | .aggWithout g e => (full U e).map fun ls => ls.filter fun n => !g.contains n && n != nameL
  | .topk e => full U e
  | .func e => withOrWithoutName (full U e)
  | .binOn m l _ => withOrWithoutName ((full U l).map fun ls => ls.filter m.contains)
  | .binIgn m l _ => withOrWithoutName ((full U l).map fun ls => ls.filter fun n => !m.contains n)
  | .setAnd _ _ l _ => full U l
  | .withScalar e => withOrWithoutName (full U e)
  | _ => []

/-- a source accounts for a label set: it can have every label of it -/
def accounts (s : Src) (ls : LS) : Bool := ls.all (canHave s)

/-! ### C12: which operands does the analyser declare "never matched"? -/

/-- port of `canJoin` (after fix d2925e0): `on` = vm.On, `m` = vm.MatchingLabels -/
def canJoin (on : Bool) (m : LS) (ls rs : Src) : Bool :=
  if on then
    if m.isEmpty then true
    else m.all fun n => !(canHave ls n && !canHave rs n)
  else
    ls.guar.all fun n => m.contains n || !(canHave ls n && !canHave rs n)

/-- the label names that take part in the matching -/
def signature (on : Bool) (m : LS) (a : LS) : LS :=
  if on then a.filter m.contains else a.filter fun n => !m.contains n && n != nameL

/-- the flags one binary operation raises for the source `s` of its own side (the source as it leaves the operation,
which is the one `parseBinOps` hands to `canJoin`): one per source of the other side that `canJoin` rejects, plus
whatever was flagged inside that other source (`WalkSources` descends into `Joins` / `Unless`) -/
def joinFlags (on : Bool) (m : LS) (s : Src) : List Src → List Nat → Nat
  | r :: rs, c :: cs => (if canJoin on m s r then 0 else 1) + c + joinFlags on m s rs cs
  | _, _ => 0

/-- port of the `Joins` / `Unless` bookkeeping of `parseBinOps` as far as "never matched" verdicts go: for every
source `analyse e` returns (same order), the number of sources `WalkSources` reaches from it that carry an `IsDead`
set by `canJoin`.  `or` records no joins: verdicts about its right-hand branches are dropped, and those branches
are returned as sources of their own. -/
def neverMatched : Expr → List Nat
  | .sel _ => [0]
  | .aggBy _ e => neverMatched e
  | .aggWithout _ e => neverMatched e
  | .topk e => neverMatched e
  | .countValuesBy _ _ e => neverMatched e
  | .func e => neverMatched e
  | .labelReplace _ e => neverMatched e
  | .absent _ => [0]
  | .vec => [0]
  | .binOn m l r =>
      List.zipWith (fun s c => c + joinFlags true m s (analyse r) (neverMatched r)) (analyse (.binOn m l r)) (neverMatched l)
  | .binIgn m l r =>
      List.zipWith (fun s c => c + joinFlags false m s (analyse r) (neverMatched r)) (analyse (.binIgn m l r)) (neverMatched l)
  | .groupLeft on m incl l r =>
      List.zipWith (fun s c => c + joinFlags on m s (analyse r) (neverMatched r)) (analyse (.groupLeft on m incl l r)) (neverMatched l)
  | .groupRight on m incl l r =>
      List.zipWith (fun s c => c + joinFlags on m s (analyse l) (neverMatched l)) (analyse (.groupRight on m incl l r)) (neverMatched r)
  | .setAnd on m l r =>
      List.zipWith (fun s c => c + joinFlags on m s (analyse r) (neverMatched r)) (analyse (.setAnd on m l r)) (neverMatched l)
  | .setOr _ _ l r => neverMatched l ++ neverMatched r
  | .withScalar e => neverMatched e

/-- two series can only be matched if their matching signatures name the same labels -/
def sigEq (on : Bool) (m : LS) (a b : LS) : Bool :=
  (signature on m a).all (signature on m b).contains && (signature on m b).all (signature on m a).contains

/-- the left series of a one-to-one / `and` operation that find a partner, judged on label names, when every stored
series carries every label of `U`: an over-approximation of what the operation returns (values are ignored), so
`joined … = []` means the operation returns no series -/
def joined (U : LS) (on : Bool) (m : LS) (l r : Expr) : List LS :=
  (full U l).filter fun a => (possible U r).any fun b => sigEq on m a b

end Pint.LabelFlow
