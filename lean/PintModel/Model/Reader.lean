/-
  Model of internal/parser/read.go : ContentReader.parseComments / emptyCurrentLine.
  A file is a list of lines (each without its trailing "\n").
-/
import PintModel.Model.Comments
namespace Pint.Reader
open Pint.Comments

structure RState where
  skipAll : Bool := false
  skipNext : Bool := false
  autoReset : Bool := false
  inBegin : Bool := false
  deriving DecidableEq, Repr, Inhabited

structure Diag where
  line : Nat
  firstCol : Nat
  lastCol : Int
  deriving DecidableEq, Repr, Inhabited

structure Out where
  masked : List Char
  fileComments : List Comment     -- comments forwarded to `r.comments` by this line
  diags : List Diag
  deriving DecidableEq, Repr, Inhabited

def spaces (n : Nat) : List Char := List.replicate n ' '

/-- `emptyCurrentLine`: every byte with index `< offset` (all bytes when `inBegin`) becomes ' '.
    Comment offsets always fall on a rune boundary, so this is char-wise with byte accounting. -/
def blankFrom (inBegin : Bool) (offset : Nat) (i : Nat) : List Char → List Char
  | [] => []
  | c :: cs =>
    (if i < offset || inBegin then spaces c.utf8Size else [c]) ++ blankFrom inBegin offset (i + c.utf8Size) cs

def emptyLine (inBegin : Bool) (cmt : Option Comment) (l : List Char) : List Char :=
  blankFrom inBegin (match cmt with | some c => c.offset | none => byteLen l + 1) 0 l

inductive Skip where
  | none | nextLine | begin | end_ | currentLine | file
  deriving DecidableEq, Repr

/-- which skip mode a comment type selects, and whether it is forwarded to `r.comments`. -/
def skipOf : CType → Skip
  | .ignoreFile => .file | .ignoreLine => .currentLine | .ignoreBegin => .begin
  | .ignoreEnd => .end_ | .ignoreNextLine => .nextLine | _ => .none

def forwarded : CType → Bool
  | .fileOwner | .fileDisable | .fileSnooze | .invalid => true
  | _ => false

/-- `parseComments` after `comments.Parse`: `cmt` is the (at most one) comment of the line.
    `hasNL`: whether the line carried a trailing "\n" (mattered for `len(r.buf) - 1`; since the fix of the ignore/file
    diagnostic the last column is `len(bytes.TrimRight(r.buf, "\r\n"))`, the same with and without a line break). -/
def stepCore (s : RState) (lineno : Nat) (hasNL : Bool) (l : List Char) (cmt : Option Comment) : RState × Out :=
  if s.skipAll then (s, ⟨emptyLine s.inBegin cmt l, [], []⟩)
  else
    let sk := match cmt with | some c => skipOf c.ctype | none => Skip.none
    let fwd := match cmt with | some c => if forwarded c.ctype then [c] else [] | none => []
    let bufLen : Int := (byteLen ((l.reverse.dropWhile (· == '\r')).reverse) : Int) + 1
    match sk with
    | .file =>
      let off := match cmt with | some c => c.offset | none => 0
      ({ s with skipNext := true, autoReset := false, skipAll := true },
       ⟨emptyLine s.inBegin cmt l, fwd, [⟨lineno, off + 1, bufLen - 1⟩]⟩)
    | .currentLine =>
      (if s.inBegin then s else { s with skipNext := false, autoReset := true },
       ⟨emptyLine s.inBegin cmt l, fwd, []⟩)
    | .nextLine => ({ s with skipNext := true, autoReset := true }, ⟨l, fwd, []⟩)
    | .begin => ({ s with skipNext := true, autoReset := false, inBegin := true }, ⟨l, fwd, []⟩)
    | .end_ => ({ s with skipNext := false, autoReset := true, inBegin := false }, ⟨l, fwd, []⟩)
    | .none =>
      if s.skipNext then
        (if s.autoReset then { s with skipNext := false } else s, ⟨emptyLine s.inBegin cmt l, fwd, []⟩)
      else (s, ⟨l, fwd, []⟩)

def stepLine (tsOk : List Char → Bool) (s : RState) (lineno : Nat) (hasNL : Bool) (l : List Char) : RState × Out :=
  stepCore s lineno hasNL l (parseComment tsOk l)

/-- run the reader over a whole file; `lastNL` says whether the final line ends in "\n". -/
def runFrom (tsOk : List Char → Bool) (s : RState) (lineno : Nat) (lastNL : Bool) : List (List Char) → RState × List Out
  | [] => (s, [])
  | l :: ls =>
    let hasNL := if ls.isEmpty then lastNL else true
    let (s1, o) := stepLine tsOk s lineno hasNL l
    let (s2, os) := runFrom tsOk s1 (lineno + 1) lastNL ls
    (s2, o :: os)

def run (tsOk : List Char → Bool) (lastNL : Bool) (ls : List (List Char)) : RState × List Out :=
  runFrom tsOk {} 1 lastNL ls

end Pint.Reader
