/-
  Model of internal/checks/rule_dependency.go: RuleDependencyCheck.Check, usesVector, usesAlert,
  nonRemovedEntries. An expression is abstracted to the list of its vector selectors (what
  utils.HasVectorSelector returns; produced by the real parser on the harness side).
  Paths and rule names are order-preserving numeric ranks (the harness ranks the strings).
-/
namespace Pint.Dependency

inductive RKind where
  | alerting | recording | invalid
  deriving DecidableEq, Repr, Inhabited

structure Sel where
  name : String
  /-- values of `alertname` matched with `=` (MatchEqual) on this selector -/
  alertnameEq : List String
  /-- values of `__name__` matched with `=` on this selector (the parser also adds one for `foo{...}`) -/
  nameEq : List String
  deriving DecidableEq, Repr, Inhabited

structure DEntry where
  path : Nat            -- rank of Path.SymlinkTarget
  isSymlink : Bool      -- Path.Name ≠ Path.SymlinkTarget
  kind : RKind
  name : String
  nameRank : Nat
  removed : Bool
  hasError : Bool       -- PathError or Rule.Error
  syntaxError : Bool    -- expression did not parse
  exprLine : Nat
  sels : List Sel
  deriving DecidableEq, Repr, Inhabited

abbrev DKey := Nat × Nat × Nat   -- (path rank, expr line, name rank)

def nonRemoved (es : List DEntry) : List DEntry := es.filter fun e => !e.removed && !e.hasError

/-- does `e` depend on the removed rule `r` ? (`usesVector` / `usesAlert`) -/
def uses (r e : DEntry) : Bool :=
  !e.syntaxError &&
  match r.kind with
  | .recording => e.sels.any fun s => s.name = r.name || s.nameEq.contains r.name
  | .alerting => e.sels.any fun s =>
      (s.name = "ALERTS" || s.name = "ALERTS_FOR_STATE" || s.nameEq.contains "ALERTS" || s.nameEq.contains "ALERTS_FOR_STATE") &&
      s.alertnameEq.contains r.name
  | .invalid => false

def keyOf (e : DEntry) : DKey := (e.path, e.exprLine, e.nameRank)

def keyLe (a b : DKey) : Bool :=
  a.1 < b.1 || (a.1 = b.1 && (a.2.1 < b.2.1 || (a.2.1 = b.2.1 && a.2.2 ≤ b.2.2)))

def insertKey (k : DKey) : List DKey → List DKey
  | [] => [k]
  | x :: rest => if keyLe k x then k :: x :: rest else x :: insertKey k rest

def sortKeys (l : List DKey) : List DKey := l.foldr insertKey []

/-- keep the first occurrence of every key (the `broken` loop) -/
def dedupKeys : List DKey → List DKey → List DKey
  | [], acc => acc
  | k :: rest, acc => if acc.contains k then dedupKeys rest acc else dedupKeys rest (acc ++ [k])

/-- `Check`: none = no problem; some ks = a rule/dependency problem listing exactly ks -/
def broken (r : DEntry) (entries : List DEntry) : List DKey :=
  dedupKeys (((nonRemoved entries).filter (uses r)).map keyOf) []

def check (r : DEntry) (entries : List DEntry) : Option (List DKey) :=
  if r.isSymlink then none
  else if (nonRemoved entries).any (fun e => e.kind = r.kind && e.name = r.name) then none
  else if (broken r entries).isEmpty then none
  else some (sortKeys (broken r entries))

end Pint.Dependency
