/-
  Model of internal/comments/comments.go : parseComment / parseValue / parseType.
  Core Lean only.  A line is a `List Char` (no trailing newline); byte offsets are tracked
  through `Char.utf8Size` because Go's `for i, r := range s` yields byte indices.
-/
namespace Pint.Comments

inductive CType where
  | unknown | invalid | ignoreFile | ignoreLine | ignoreBegin | ignoreEnd | ignoreNextLine
  | fileOwner | ruleOwner | fileDisable | disable | fileSnooze | snooze | ruleSet
  deriving DecidableEq, Repr, Inhabited

def CType.name : CType → String
  | .unknown => "unknown" | .invalid => "invalid" | .ignoreFile => "ignore/file"
  | .ignoreLine => "ignore/line" | .ignoreBegin => "ignore/begin" | .ignoreEnd => "ignore/end"
  | .ignoreNextLine => "ignore/next-line" | .fileOwner => "file/owner" | .ruleOwner => "rule/owner"
  | .fileDisable => "file/disable" | .disable => "disable" | .fileSnooze => "file/snooze"
  | .snooze => "snooze" | .ruleSet => "rule/set"

/-- keyword table of `parseType`, as char lists so that the kernel can evaluate it (`decide`). -/
def keywords : List (List Char × CType) :=
  [(['i', 'g', 'n', 'o', 'r', 'e', '/', 'f', 'i', 'l', 'e'], .ignoreFile),
   (['i', 'g', 'n', 'o', 'r', 'e', '/', 'l', 'i', 'n', 'e'], .ignoreLine),
   (['i', 'g', 'n', 'o', 'r', 'e', '/', 'b', 'e', 'g', 'i', 'n'], .ignoreBegin),
   (['i', 'g', 'n', 'o', 'r', 'e', '/', 'e', 'n', 'd'], .ignoreEnd),
   (['i', 'g', 'n', 'o', 'r', 'e', '/', 'n', 'e', 'x', 't', '-', 'l', 'i', 'n', 'e'], .ignoreNextLine),
   (['f', 'i', 'l', 'e', '/', 'o', 'w', 'n', 'e', 'r'], .fileOwner),
   (['r', 'u', 'l', 'e', '/', 'o', 'w', 'n', 'e', 'r'], .ruleOwner),
   (['f', 'i', 'l', 'e', '/', 'd', 'i', 's', 'a', 'b', 'l', 'e'], .fileDisable),
   (['d', 'i', 's', 'a', 'b', 'l', 'e'], .disable),
   (['f', 'i', 'l', 'e', '/', 's', 'n', 'o', 'o', 'z', 'e'], .fileSnooze),
   (['s', 'n', 'o', 'o', 'z', 'e'], .snooze),
   (['r', 'u', 'l', 'e', '/', 's', 'e', 't'], .ruleSet)]

def lookupType : List (List Char × CType) → List Char → CType
  | [], _ => .unknown
  | (k, t) :: rest, s => if s = k then t else lookupType rest s

/-- `parseType` -/
def parseType (s : List Char) : CType := lookupType keywords s

def pintPrefix : List Char := ['p', 'i', 'n', 't']

/-- Go `unicode.IsSpace`, exact table. -/
def isSpace (c : Char) : Bool :=
  let n := c.toNat
  n = 0x09 || n = 0x0A || n = 0x0B || n = 0x0C || n = 0x0D || n = 0x20 || n = 0x85 || n = 0xA0 ||
  n = 0x1680 || (0x2000 ≤ n && n ≤ 0x200A) || n = 0x2028 || n = 0x2029 || n = 0x202F ||
  n = 0x205F || n = 0x3000

/-- Go `unicode.IsLetter` restricted to the code points the correspondence generator emits:
    ASCII letters exactly, plus a fixed sample of non-ASCII letters; every other non-ASCII code
    point is *un-modelled* (the generator never emits them). -/
def isLetter (c : Char) : Bool :=
  let n := c.toNat
  (0x41 ≤ n && n ≤ 0x5A) || (0x61 ≤ n && n ≤ 0x7A) ||
  n = 0xE9 || n = 0xDF || n = 0x65E5 || n = 0x3B1   -- é ß 日 α

inductive PState where
  | needsHash | needsPrefix | readsPrefix | needsType | readsType | needsValue | readsValue
  deriving DecidableEq, Repr, Inhabited

structure St where
  state : PState := .needsHash
  buf : List Char := []          -- in order
  ctype : CType := .unknown
  offset : Nat := 0
  deriving Repr, Inhabited, DecidableEq

/-- one dispatch of the `switch state` for rune `r` at byte index `i`;
    returns the new state and whether the rune must be re-dispatched (`goto READRUNE`). -/
def dispatch (st : St) (i : Nat) (r : Char) : St × Bool :=
  match st.state with
  | .needsHash =>
    if r ≠ '#' then (st, false)
    else ({ state := .needsPrefix, buf := [], ctype := .unknown, offset := i }, false)
  | .needsPrefix =>
    if isSpace r then (st, false) else ({ st with state := .readsPrefix }, true)
  | .readsPrefix =>
    if isLetter r then ({ st with buf := st.buf ++ [r] }, false)
    else if isSpace r then
      if st.buf ≠ pintPrefix then ({ st with buf := [], state := .needsHash }, false)
      else ({ st with buf := [], state := .needsType }, false)
    else ({ st with state := .needsHash }, false)
  | .needsType =>
    if r = '#' then ({ st with state := .needsHash }, true)
    else if isSpace r then (st, false)
    else ({ st with state := .readsType }, true)
  | .readsType =>
    if isLetter r || r = '/' || r = '-' then ({ st with buf := st.buf ++ [r] }, false)
    else if isSpace r || r = '\n' then
      let t := parseType st.buf
      ({ st with ctype := t, buf := [], state := if t = .unknown then .needsHash else .needsValue }, false)
    else ({ st with buf := [], state := .needsHash }, r = '#')   -- any other rune ends the attempt (after the fix); `#` may start a new one
  | .needsValue =>
    if isSpace r then (st, false) else ({ st with state := .readsValue }, true)
  | .readsValue =>
    if r = '\n' then (st, false) else ({ st with buf := st.buf ++ [r] }, false)

/-- one rune, including at most one re-dispatch (no target of a `goto READRUNE` re-dispatches). -/
def stepRune (st : St) (i : Nat) (r : Char) : St :=
  let (st1, again) := dispatch st i r
  if again then (dispatch st1 i r).1 else st1

def runFrom (st : St) (i : Nat) : List Char → St
  | [] => st
  | r :: rs => runFrom (stepRune st i r) (i + r.utf8Size) rs

def byteLen (l : List Char) : Nat := (l.map Char.utf8Size).sum

def trimLeft : List Char → List Char
  | [] => []
  | c :: cs => if isSpace c then trimLeft cs else c :: cs

def trimSpace (l : List Char) : List Char := (trimLeft (trimLeft l).reverse).reverse

/-- outcome of parseValue, abstracted: `ok` with the trimmed raw text, or an error message class. -/
inductive Val where
  | none                       -- ignore/* comments
  | text (s : List Char)       -- owner / disable / rule/set
  | snooze (ts : List Char) (m : List Char)
  deriving DecidableEq, Repr, Inhabited

structure Comment where
  ctype : CType
  offset : Nat
  val : Val
  err : List Char := []       -- non-empty iff ctype = invalid : the error class
  deriving DecidableEq, Repr, Inhabited

/-- `idx := strings.IndexAny(s, " \t")`, `s[:idx]`, `strings.TrimSpace(s[idx:])` (after fix: any whitespace separates
the time from the match) -/
def splitFirstSpace : List Char → Option (List Char × List Char)
  | [] => none
  | c :: cs =>
    if c = ' ' ∨ c = '\t' then some ([], trimSpace (c :: cs))
    else match splitFirstSpace cs with
      | none => none
      | some (a, b) => some (c :: a, b)

/-- `tsOk` is the parameter standing for Go's `time.Parse(RFC3339) || time.Parse("2006-01-02")`. -/
def parseValue (tsOk : List Char → Bool) (t : CType) (s : List Char) : Except (List Char) Val :=
  match t with
  | .ignoreFile | .ignoreLine | .ignoreBegin | .ignoreEnd | .ignoreNextLine =>
    if s ≠ [] then .error ['s','u','f','f','i','x'] else .ok .none
  | .fileOwner | .ruleOwner | .fileDisable | .disable | .ruleSet =>
    if s = [] then .error ['m','i','s','s','i','n','g'] else .ok (.text s)
  | .fileSnooze | .snooze =>
    if s = [] then .error ['m','i','s','s','i','n','g']
    else match splitFirstSpace s with
      | none => .error ['s','n','o','o','z','e','-','f','o','r','m','a','t']
      | some (ts, m) =>
        if tsOk ts then .ok (.snooze ts m)
        else .error ['s','n','o','o','z','e','-','t','i','m','e','s','t','a','m','p']
  | .unknown | .invalid => .ok .none

/-- `parseComment(s, line)` : at most one comment per line. -/
def parseComment (tsOk : List Char → Bool) (line : List Char) : Option Comment :=
  let st := runFrom {} 0 (line ++ ['\n'])
  if st.ctype = .unknown then none
  else match parseValue tsOk st.ctype (trimSpace st.buf) with
    | .ok v => some { ctype := st.ctype, offset := st.offset, val := v }
    | .error e => some { ctype := .invalid, offset := st.offset, val := .none, err := e }

def Val.render : Val → String
  | .none => "-"
  | .text s => "T:" ++ String.ofList s
  | .snooze _ m => "S:" ++ String.ofList m

def Comment.render (c : Comment) : String :=
  c.ctype.name ++ "@" ++ toString c.offset ++ " " ++ (if c.ctype = .invalid then "E:" ++ String.ofList c.err else c.val.render)

end Pint.Comments
