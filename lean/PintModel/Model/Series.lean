/-
Model of the first steps of `SeriesCheck.Check` (internal/checks/promql_series.go) for one selector (property C16):
exemptions (disable / snooze comments), step 0 (ALERTS: only an `alertname="X"` equality matcher names an alert, and X
must be an error-free alerting rule of the checked set that is not being removed), step 1 (instant probe), step 2 (was the base metric
ever there: range probe, recording-rule producer, other servers, ignoreMetrics).  Everything after step 2 (labels
never present, disappeared series, ...) is `later`: not modelled.
-/
namespace Pint.Series

structure Probe where
  isAlerts : Bool        -- metric is ALERTS / ALERTS_FOR_STATE
  alertNamed : Bool      -- the selector has an `alertname="X"` equality matcher (fix 32bd114: `!=` names nothing)
  alertRuleStays : Bool  -- an error-free alerting rule named X is in the checked set and is not being removed (fix 8169966)
  disabled : Bool        -- `# pint disable promql/series(...)` matches the selector
  snoozed : Bool
  instantErr : Bool      -- count(selector) failed
  instantCount : Nat     -- sum of the values of count(selector) now
  bareEmpty : Bool       -- stripLabels(selector) prints as ""
  baseErr : Bool         -- count(bare metric) range query failed
  baseRanges : Nat       -- number of time ranges of count(bare metric) over the lookback window
  producer : Bool        -- an error-free recording rule of the checked set, not being removed (fix 8169966), records the bare metric
  otherServers : Bool    -- checkOtherServer says "report" (true when no other server has the series either)
  ignored : Bool         -- ignoreMetrics matches the bare metric (textAndSeverity lowers to Warning)
deriving DecidableEq, Repr, Inhabited

inductive Verdict
  | none            -- no problem for this selector
  | unknownAlert    -- "unknown alert referenced", Bug
  | error           -- problemFromError
  | information     -- "query on nonexistent series", Information: a recording rule generates it
  | bug             -- "query on nonexistent series", Bug
  | warning         -- same, lowered by ignoreMetrics
  | later           -- decided by the steps after step 2
deriving DecidableEq, Repr, Inhabited

def verdict (p : Probe) : Verdict :=
  if p.disabled || p.snoozed then .none
  else if p.isAlerts then (if p.alertNamed && !p.alertRuleStays then .unknownAlert else .none)
  else if p.instantErr then .error
  else if p.instantCount > 0 then .none
  else if p.bareEmpty then .none
  else if p.baseErr then .error
  else if p.baseRanges == 0 then
    if p.producer then .information
    else if !p.otherServers then .none
    else if p.ignored then .warning else .bug
  else .later

end Pint.Series
