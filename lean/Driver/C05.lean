import PintModel.Model.Exit
import Driver.Util
namespace Driver.C05
open Pint.Exit Driver

def parseStream (s : String) : Option (List Rep) :=
  if s = "-" then some [] else
  (s.splitOn ";").mapM fun p =>
    match p.splitOn "," with
    | [a, b] => do pure ⟨← a.toNat?, ← b.toNat?⟩
    | _ => none

/-- op: exit lint <failOn> <minSev> <showDup> <stream>  |  exit ci <failOn> <stream> -/
def exit (args : List String) : String :=
  match args with
  | ["lint", f, m, d, s] =>
    match f.toNat?, m.toNat?, parseStream s with
    | some f, some m, some st => if (lint st f m (d = "1")).fail then "1" else "0"
    | _, _, _ => "bad-op"
  | ["ci", f, s] =>
    match f.toNat?, parseStream s with
    | some f, some st => if ci st f then "1" else "0"
    | _, _ => "bad-op"
  | _ => "bad-op"

end Driver.C05
