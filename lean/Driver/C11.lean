import Lean.Data.Json
import PintModel.Model.Report
namespace Driver.C11
open Lean Pint.Report

def gi (j : Json) (k : String) : Int := (j.getObjValD k).getInt?.toOption.getD 0
def gn (j : Json) (k : String) : Nat := (j.getObjValD k).getNat?.toOption.getD 0

def repOf (j : Json) : Rep :=
  { pathName := gn j "pn", pathTarget := gn j "pt", owner := gn j "ow", pFirst := gi j "pf", pLast := gi j "pl",
    rFirst := gi j "rf", rLast := gi j "rl", ruleName := gn j "rn", ruleKind := gn j "rk", reporter := gn j "rp", summary := gn j "su",
    details := gn j "de", anchor := gn j "an", sev := gn j "sv",
    diags := match j.getObjValD "dg" with
      | .arr a => a.toList.map fun d => ⟨gi d "f", gi d "l", gn d "m"⟩
      | _ => [] }

def streamOf (js : String) : Option (List Rep) :=
  match Json.parse js with
  | .ok (.arr a) => some (a.toList.map repOf)
  | _ => none

/-- everything the model knows about a report, as text -/
def keyOf (r : Rep) : String :=
  s!"{r.pathName}.{r.pathTarget}.{r.owner}.{r.pFirst}.{r.pLast}.{r.rFirst}.{r.rLast}.{r.ruleName}.{r.ruleKind}.{r.reporter}.{r.summary}.{r.details}.{r.anchor}.{r.sev}[" ++
    String.intercalate "|" (r.diags.map fun d => s!"{d.firstCol},{d.lastCol},{d.msg}") ++ "]"

/-- op: pipeline <json stream> → key:dup:key+key;…   (reports that are equal in every field are interchangeable) -/
def pipelineOp (args : List String) : String :=
  match args with
  | [js] => match streamOf js with
    | none => "bad-op"
    | some st =>
      let out := pipeline st
      let sorted := out.map (·.1)
      String.intercalate ";" (out.map fun (r, m) =>
        s!"{keyOf r}:{if m.isDup then 1 else 0}:" ++ String.intercalate "+" (m.dups.map fun j => keyOf (sorted.getD j default)))
  | _ => "bad-op"

/-- op: monitor <json stream> → E=<0|1> Ord=<0|1> -/
def monitorOp (args : List String) : String :=
  match args with
  | [js] => match streamOf js with
    | none => "bad-op"
    | some st => s!"E={if eqOnB st then 1 else 0} Ord={if ordOnB st then 1 else 0}"
  | _ => "bad-op"

/-- op: schedmon <json tagged stream> → ok=<StreamOk monitor> valid=<ValidSchedule monitor> -/
def schedmonOp (args : List String) : String :=
  match args with
  | [js] => match Json.parse js with
    | .ok (.arr a) =>
      let st : List Tagged := (a.toList.map fun j => (⟨repOf j, gn j "job", gn j "seq"⟩ : Tagged)).map normT
      let b := fun (x : Bool) => if x then "1" else "0"
      s!"ok={b (okEq st)}{b (okTotal st)}{b (okTrans st)}{b (okTies st)}{b (okTags st)} valid={b (validScheduleB st)}"
    | _ => "bad-op"
  | _ => "bad-op"

end Driver.C11
