namespace Driver

def hexVal (c : Char) : Option Nat :=
  if '0' ≤ c ∧ c ≤ '9' then some (c.toNat - '0'.toNat)
  else if 'a' ≤ c ∧ c ≤ 'f' then some (c.toNat - 'a'.toNat + 10)
  else if 'A' ≤ c ∧ c ≤ 'F' then some (c.toNat - 'A'.toNat + 10)
  else none

def unhexBytes : List Char → Option (List UInt8)
  | [] => some []
  | [_] => none
  | a :: b :: rest => do
    let x ← hexVal a
    let y ← hexVal b
    let r ← unhexBytes rest
    pure (UInt8.ofNat (x * 16 + y) :: r)

/-- hex → String (must be valid UTF-8).  "-" encodes the empty string. -/
def unhex (s : String) : Option String :=
  if s = "-" then some "" else
  match unhexBytes s.toList with
  | none => none
  | some bs => String.fromUTF8? (ByteArray.mk bs.toArray)

def hexDigit (n : Nat) : Char := if n < 10 then Char.ofNat (48 + n) else Char.ofNat (87 + n)

def hex (s : String) : String :=
  if s.isEmpty then "-" else
  String.ofList (s.toUTF8.toList.flatMap fun b => [hexDigit (b.toNat / 16), hexDigit (b.toNat % 16)])

def fields (line : String) : List String := line.splitOn "\t"

def parseNat? (s : String) : Option Nat := s.toNat?
def parseInt? (s : String) : Option Int := s.toInt?

end Driver
