import Lean.Data.Json
import PintModel.Model.LabelFlow
import PintModel.Props.C12
import PintModel.Model.StaticFlow
namespace Driver.C04
open Lean Pint.LabelFlow

def strs (j : Json) : List String :=
  match j with | .arr a => a.toList.filterMap fun x => x.getStr?.toOption | _ => []

def mkOf (s : String) : MK :=
  match s with | "eq" => .eq | "eqEmpty" => .eqEmpty | "neq" => .neq | "re" => .re | _ => .nre

def matchers (j : Json) : List Matcher :=
  match j with
  | .arr a => a.toList.map fun m => { label := (m.getObjValD "l").getStr?.toOption.getD "", kind := mkOf ((m.getObjValD "t").getStr?.toOption.getD "") }
  | _ => []

partial def exprOf (j : Json) : Expr :=
  let k := (j.getObjValD "k").getStr?.toOption.getD ""
  let e := fun (f : String) => exprOf (j.getObjValD f)
  let ls := fun (f : String) => strs (j.getObjValD f)
  let b := fun (f : String) => (j.getObjValD f).getBool?.toOption.getD false
  let st := fun (f : String) => (j.getObjValD f).getStr?.toOption.getD ""
  match k with
  | "sel" => .sel (matchers (j.getObjValD "ms"))
  | "aggBy" => .aggBy (ls "g") (e "e")
  | "aggWithout" => .aggWithout (ls "g") (e "e")
  | "topk" => .topk (e "e")
  | "countValuesBy" => .countValuesBy (ls "g") (st "v") (e "e")
  | "func" => .func (e "e")
  | "labelReplace" => .labelReplace (st "dst") (e "e")
  | "absent" => .absent (matchers (j.getObjValD "ms"))
  | "vec" => .vec
  | "binOn" => .binOn (ls "m") (e "l") (e "r")
  | "binIgn" => .binIgn (ls "m") (e "l") (e "r")
  | "groupLeft" => .groupLeft (b "on") (ls "m") (ls "incl") (e "l") (e "r")
  | "groupRight" => .groupRight (b "on") (ls "m") (ls "incl") (e "l") (e "r")
  | "setAnd" => .setAnd (b "on") (ls "m") (e "l") (e "r")
  | "setOr" => .setOr (b "on") (ls "m") (e "l") (e "r")
  | _ => .withScalar (e "e")

def insertS (x : String) : List String → List String
  | [] => [x]
  | y :: ys => if x < y then x :: y :: ys else if x == y then y :: ys else y :: insertS x ys
def norm (l : List String) : List String := l.foldr insertS []
def showL (l : List String) : String := "[" ++ String.intercalate "," (norm l) ++ "]"

/-- op: lfanalyse <expr json> → one line per source: i=[..] e=[..] g=[..] f=bool, joined by ; -/
def lfanalyse (args : List String) : String :=
  match args with
  | [js] => match Json.parse js with
    | .error _ => "bad-op"
    | .ok j => String.intercalate ";" ((analyse (exprOf j)).map fun s =>
        s!"i={showL s.incl} e={showL s.excl} g={showL s.guar} f={s.fixed}")
  | _ => "bad-op"

/-- op: lfpossible <U csv> <expr json> <ls;ls;...> → ok | missing [..] -/
def lfpossible (args : List String) : String :=
  match args with
  | [u, js, sets] => match Json.parse js with
    | .error _ => "bad-op"
    | .ok j =>
      let U := (u.splitOn ",").filter (· != "")
      let poss := (possible U (exprOf j)).map norm
      let asked := (sets.splitOn ";").map fun s => norm ((s.splitOn ",").filter (· != ""))
      match asked.find? (fun ls => !poss.contains ls) with
      | none => "ok"
      | some ls => s!"missing {showL ls}"
  | _ => "bad-op"


def srcOf (j : Json) : Src :=
  { incl := strs (j.getObjValD "i"), excl := strs (j.getObjValD "e"), guar := strs (j.getObjValD "g"),
    fixed := (j.getObjValD "f").getBool?.toOption.getD false, selGuar := [] }

/-- op: canjoin {on, m, l:{i,e,g,f}, r:{...}} → true|false -/
def canjoin (args : List String) : String :=
  match args with
  | [js] => match Json.parse js with
    | .error _ => "bad-op"
    | .ok j => toString (Pint.LabelFlow.canJoin ((j.getObjValD "on").getBool?.toOption.getD false) (strs (j.getObjValD "m"))
        (srcOf (j.getObjValD "l")) (srcOf (j.getObjValD "r")))
  | _ => "bad-op"


/-- op: lffull <U csv> <expr json> <ls;ls;...> → ok | outside | missing [..]: on the C12 fragment, what the engine
returns on a database where every series carries every label of U must be among `full U e` -/
def lffull (args : List String) : String :=
  match args with
  | [u, js, sets] => match Json.parse js with
    | .error _ => "bad-op"
    | .ok j =>
      let e := exprOf j
      if !frag12 e then "outside" else
      let U := (u.splitOn ",").filter (· != "")
      let poss := (full U e).map norm
      let asked := (sets.splitOn ";").map fun s => norm ((s.splitOn ",").filter (· != ""))
      match asked.find? (fun ls => !poss.contains ls) with
      | none => "ok"
      | some ls => s!"missing {showL ls}"
  | _ => "bad-op"

/-- op: lffrag <expr json> → true|false -/
def lffrag (args : List String) : String :=
  match args with
  | [js] => match Json.parse js with
    | .error _ => "bad-op"
    | .ok j => toString (frag12 (exprOf j))
  | _ => "bad-op"

/-- op: lfnever <expr json> → c1,c2,...: per source of `analyse`, the number of "never matched" verdicts `WalkSources`
reaches from it -/
def lfnever (args : List String) : String :=
  match args with
  | [js] => match Json.parse js with
    | .error _ => "bad-op"
    | .ok j => String.intercalate "," ((neverMatched (exprOf j)).map toString)
  | _ => "bad-op"

/-- op: lfjoined <U csv> <on> <m csv> <l json> <r json> → empty | nonempty -/
def lfjoined (args : List String) : String :=
  match args with
  | [u, on, m, jl, jr] => match Json.parse jl, Json.parse jr with
    | .ok l, .ok r =>
      let U := (u.splitOn ",").filter (· != "")
      let ml := (m.splitOn ",").filter (· != "")
      if (joined U (on == "true") ml (exprOf l) (exprOf r)).isEmpty then "empty" else "nonempty"
    | _, _ => "bad-op"
  | _ => "bad-op"

open Pint.StaticFlow in
partial def seOf (j : Json) : SE :=
  let k := (j.getObjValD "k").getStr?.toOption.getD ""
  let opOf : String → Op := fun s => match s with
    | "+" => .add | "-" => .sub | "*" => .mul | "==" => .eq | "!=" => .ne | "<=" => .le | "<" => .lt | ">=" => .ge | _ => .gt
  match k with
  | "num" => .num ((j.getObjValD "v").getInt?.toOption.getD 0)
  | "sel" => .sel
  | "vector" => .vector (seOf (j.getObjValD "e"))
  | "neg" => .neg (seOf (j.getObjValD "e"))
  | "fn" => .fn ((j.getObjValD "keeps").getBool?.toOption.getD false) (seOf (j.getObjValD "e"))
  | "agg" => .agg ((j.getObjValD "keeps").getBool?.toOption.getD false) (seOf (j.getObjValD "e"))
  | "unlessOn" => .unlessOn (seOf (j.getObjValD "l")) (seOf (j.getObjValD "r"))
  | _ => .bin (opOf ((j.getObjValD "op").getStr?.toOption.getD "")) ((j.getObjValD "bool").getBool?.toOption.getD false)
      (seOf (j.getObjValD "l")) (seOf (j.getObjValD "r"))

/-- op: lfstatic <SE json> → always known num|- dead cond -/
def lfstatic (args : List String) : String :=
  match args with
  | [js] => match Json.parse js with
    | .error _ => "bad-op"
    | .ok j =>
      let st := Pint.StaticFlow.static (seOf j)
      s!"{st.always} {st.known} " ++ (if st.known then toString st.num else "-") ++ s!" {st.dead} {st.cond}"
  | _ => "bad-op"

/-- op: lfeval <SE json> → s:k | v:k | v:none (closed expressions) -/
def lfeval (args : List String) : String :=
  match args with
  | [js] => match Json.parse js with
    | .error _ => "bad-op"
    | .ok j => match Pint.StaticFlow.eval (seOf j) with
      | .s k => s!"s:{k}"
      | .v (some k) => s!"v:{k}"
      | .v none => "v:none"
  | _ => "bad-op"

/-- op: lforrhs <SE json of the left side> → true|false: is the right side of `l or ... r` declared unused -/
def lforrhs (args : List String) : String :=
  match args with
  | [js] => match Json.parse js with
    | .error _ => "bad-op"
    | .ok j => toString (Pint.StaticFlow.orRhsDead (seOf j))
  | _ => "bad-op"

end Driver.C04
