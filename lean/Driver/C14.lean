namespace Driver.C14

/-- decide the server-log predicates: peak in flight, any key twice in flight, any key sent again after a success -/
structure Acc where
  cur : Nat := 0
  peak : Nat := 0
  open_ : List Nat := []
  lastOk : List Nat := []
  overlap : Bool := false
  resent : Bool := false

def stepEv (a : Acc) (ev : String) : Acc :=
  match ev.splitOn ":" with
  | [kind, k, ok] =>
    match k.toNat? with
    | none => a
    | some key =>
      if kind == "S" then
        { a with cur := a.cur + 1, peak := max a.peak (a.cur + 1), open_ := key :: a.open_,
                 overlap := a.overlap || a.open_.contains key, resent := a.resent || a.lastOk.contains key }
      else
        { a with cur := a.cur - 1, open_ := a.open_.erase key,
                 lastOk := if ok == "1" then key :: a.lastOk.filter (· != key) else a.lastOk.filter (· != key) }
  | _ => a

def flightlog (args : List String) : String :=
  match args with
  | [log] =>
    let a := (log.splitOn " ").foldl stepEv {}
    s!"peak={a.peak} overlap={a.overlap} resent={a.resent}"
  | _ => "bad-op"

end Driver.C14
