import PintModel.Model.Flight
import PintModel.Model.Cache
namespace Driver.C14
open Pint.Flight

/-- decide the server-log predicates: peak in flight, any key twice in flight, any key sent again after a success -/
structure Acc where
  cur : Nat := 0
  peak : Nat := 0
  open_ : List Nat := []
  lastOk : List Nat := []
  overlap : Bool := false
  resent : Bool := false

def stepEv (a : Acc) (ev : String) : Acc :=
  match ev.splitOn ":" with
  | [kind, k, ok] =>
    match k.toNat? with
    | none => a
    | some key =>
      if kind == "S" then
        { a with cur := a.cur + 1, peak := max a.peak (a.cur + 1), open_ := key :: a.open_,
                 overlap := a.overlap || a.open_.contains key, resent := a.resent || a.lastOk.contains key }
      else
        { a with cur := a.cur - 1, open_ := a.open_.erase key,
                 lastOk := if ok == "1" then key :: a.lastOk.filter (· != key) else a.lastOk.filter (· != key) }
  | _ => a

def flightlog (args : List String) : String :=
  match args with
  | [log] =>
    let a := (log.splitOn " ").foldl stepEv {}
    s!"peak={a.peak} overlap={a.overlap} resent={a.resent}"
  | _ => "bad-op"


def actOf (t : String) : Option Act :=
  match t.splitOn ":" with
  | ["acquire", lk, k] => do pure (.acquire (← lk.toNat?) (← k.toNat?))
  | ["enqueue", lk] => do pure (.enqueue (← lk.toNat?))
  | ["take", lk] => do pure (.take (← lk.toNat?))
  | ["hit", lk] => do pure (.hit (← lk.toNat?))
  | ["miss", lk] => do pure (.miss (← lk.toNat?))
  | ["unsupported", lk] => do pure (.unsupported (← lk.toNat?))
  | ["send", lk] => do pure (.send (← lk.toNat?))
  | ["respok", lk, a] => do pure (.respOk (← lk.toNat?) (← a.toNat?))
  | ["resperr", lk] => do pure (.respErr (← lk.toNat?))
  | ["set", lk] => do pure (.cacheSet (← lk.toNat?))
  | ["gc", k] => do pure (.gc (← k.toNat?))
  | ["release", lk] => do pure (.release (← lk.toNat?))
  | _ => none

/-- run the model on a trace; the first action the model does not allow is reported -/
def runTrace (W : Nat) (lockOf : Nat → Nat) : St → Nat → List String → String
  | s, _, [] => s!"accepted peak-ok={decide ((inflightKeys s).length ≤ W)} holders-left={s.holders.length}"
  | s, i, t :: ts =>
    match actOf t with
    | none => s!"bad-action {i} {t}"
    | some a =>
      if enabled W lockOf s a then
        if (inflightKeys (apply s a)).length ≤ W && (inflightKeys (apply s a)).eraseDups.length == (inflightKeys (apply s a)).length
        then runTrace W lockOf (apply s a) (i + 1) ts
        else s!"invariant-broken {i} {t}"
      else s!"rejected {i} {t}"

/-- op: flightrun W key=lk,key=lk,... act act act ... -/
def flightrun (args : List String) : String :=
  match args with
  | [w, tab, acts] =>
    match w.toNat? with
    | none => "bad-op"
    | some W =>
      let pairs : List (Nat × Nat) := (tab.splitOn ",").filterMap fun p =>
        match p.splitOn "=" with
        | [k, l] => do pure ((← k.toNat?), (← l.toNat?))
        | _ => none
      let lockOf := fun k => ((pairs.find? fun p => p.1 == k).map (·.2)).getD 1000000
      runTrace W lockOf init 0 (acts.splitOn " " |>.filter (· != ""))
  | _ => "bad-op"


/-- op: cacheops maxStale "s:k:v:ttl g:k a:d c" → per get "h<v>"/"m", per sweep the sorted keys -/
def insertNat (x : Nat) : List Nat → List Nat
  | [] => [x]
  | y :: ys => if x ≤ y then x :: y :: ys else y :: insertNat x ys

def cacheStep (st : Pint.Cache.Cache × List String) (op : String) : Pint.Cache.Cache × List String :=
  let (c, out) := st
  match op.splitOn ":" with
  | ["s", k, v, ttl] => (Pint.Cache.put c k.toNat! v.toNat! ttl.toNat!, out)
  | ["g", k] =>
    let r := Pint.Cache.look c k.toNat!
    (r.1, (match r.2 with | some v => s!"h{v}" | none => "m") :: out)
  | ["a", d] => (Pint.Cache.advance c d.toNat!, out)
  | ["c"] =>
    let c' := Pint.Cache.sweep c
    (c', ("[" ++ String.intercalate "," ((c'.entries.map (·.key)).foldr insertNat [] |>.map toString) ++ "]e" ++ toString c'.evictions) :: out)
  | _ => (c, "bad" :: out)

def cacheops (args : List String) : String :=
  match args with
  | [ms, ops] =>
    let r := (ops.splitOn " " |>.filter (· != "")).foldl cacheStep (Pint.Cache.empty ms.toNat! 0, [])
    String.intercalate " " r.2.reverse
  | _ => "bad-op"

end Driver.C14
