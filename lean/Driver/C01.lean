import Lean.Data.Json
import PintModel.Model.Load
namespace Driver.C01
open Lean Pint.Load

def svOf (s : String) : SV := match s with | "absent" => .absent | "null" => .null | "empty" => .empty | "val" => .val | "other" => .other | _ => .coll
def dvOf (s : String) : DV := match s with | "absent" => .absent | "null" => .null | "valid" => .valid | "zero" => .zero | "invalid" => .invalid | "otherValid" => .otherValid | "otherZero" => .otherZero | "otherInvalid" => .otherInvalid | _ => .coll
def lvOf (s : String) : LV := match s with | "absent" => .absent | "null" => .null | "int" => .int | _ => .other
def mkOf (s : String) : MKind := match s with | "absent" => .absent | "null" => .null | "map" => .map | _ => .notMap

def str (j : Json) (f : String) : String := (j.getObjValD f).getStr?.toOption.getD ""
def boo (j : Json) (f : String) : Bool := (j.getObjValD f).getBool?.toOption.getD false

def mapOf (j : Json) : MapV :=
  { kind := mkOf (str j "kind"), dupKey := boo j "dupKey", collValue := boo j "collValue", badName := boo j "badName",
    metricName := boo j "metricName", badValue := boo j "badValue", badTemplate := boo j "badTemplate", nonEmpty := boo j "nonEmpty", otherValue := boo j "otherValue" }

def ruleOf (j : Json) : RuleD :=
  { isNull := boo j "isNull", isMap := boo j "isMap", record := svOf (str j "record"), alert := svOf (str j "alert"), expr := svOf (str j "expr"),
    recordValid := boo j "recordValid", recordBraces := boo j "recordBraces", exprParses := boo j "exprParses",
    for_ := dvOf (str j "for"), keepFiring := dvOf (str j "keepFiring"), labels := mapOf (j.getObjValD "labels"),
    annotations := mapOf (j.getObjValD "annotations"), unknownKey := boo j "unknownKey", duplicateKey := boo j "duplicateKey" }

def rulesOf (j : Json) : RulesV :=
  match j with
  | .str "absent" => .absent | .str "null" => .null | .str "notSeq" => .notSeq
  | .arr a => .seq (a.toList.map ruleOf)
  | _ => .notSeq

def groupOf (j : Json) : GroupD :=
  { isNull := boo j "isNull", isMap := boo j "isMap", name := svOf (str j "name"), nameText := str j "nameText", interval := dvOf (str j "interval"),
    queryOffset := dvOf (str j "queryOffset"), limit := lvOf (str j "limit"), labels := mapOf (j.getObjValD "labels"),
    rules := rulesOf (j.getObjValD "rules"), unknownKey := boo j "unknownKey", duplicateKey := boo j "duplicateKey" }

def groupsOf (j : Json) : GroupsV :=
  match j with
  | .str "absent" => .absent | .str "null" => .null | .str "notSeq" => .notSeq
  | .arr a => .seq (a.toList.map groupOf)
  | _ => .notSeq

/-- op: loadverdicts {doc} → pint=<bool> prom=<bool> -/
def loadverdicts (args : List String) : String :=
  match args with
  | [js] => match Json.parse js with
    | .error _ => "bad-op"
    | .ok j =>
      let d : Doc := { empty := boo j "empty", isMap := boo j "isMap", unknownKey := boo j "unknownKey", dupGroups := boo j "dupGroups",
                       multiDoc := boo j "multiDoc", groups := groupsOf (j.getObjValD "groups") }
      s!"pint={pintBlocks d} prom={promRejects d}"
  | _ => "bad-op"


/-- op: loadcheck <exact|implied> <implPint> <implProm> {doc}: the model must agree with the real verdicts: exactly, or
(for byte-mutated documents) in the direction the theorem needs: model pint blocks ⇒ real pint blocks, real Prometheus
rejects ⇒ model rejects -/
def loadcheck (args : List String) : String :=
  match args with
  | [mode, ip, ipr, js] => match Json.parse js with
    | .error _ => "bad-op"
    | .ok j =>
      let d : Doc := { empty := boo j "empty", isMap := boo j "isMap", unknownKey := boo j "unknownKey", dupGroups := boo j "dupGroups",
                       multiDoc := boo j "multiDoc", groups := groupsOf (j.getObjValD "groups") }
      let mp := pintBlocks d
      let mr := promRejects d
      let implP := ip == "true"
      let implR := ipr == "true"
      let good := if mode == "exact" then mp == implP && mr == implR else (!mp || implP) && (!implR || mr)
      if good then "ok" else s!"model pint={mp} prom={mr}"
  | _ => "bad-op"

end Driver.C01
