import Lean.Data.Json
import PintModel.Model.Position
import Driver.Util
namespace Driver.C06
open Lean Pint.Position Driver

def bytesOfHex (s : String) : List Nat :=
  if s = "-" then [] else
  match unhexBytes s.toList with
  | some bs => bs.map (·.toNat)
  | none => []

def showPRs (l : List PR) : String := String.intercalate "," (l.map fun p => s!"{p.line}:{p.first}-{p.last}")

def prsOf (j : Json) : List PR :=
  match j with
  | .arr a => a.toList.map fun p =>
    ⟨(p.getObjValD "l").getNat?.toOption.getD 0, (p.getObjValD "f").getNat?.toOption.getD 0, (p.getObjValD "t").getNat?.toOption.getD 0⟩
  | _ => []

/-- op: npr {lines:[hex], value:hex, line, col, minCol} -/
def npr (args : List String) : String :=
  match args with
  | [js] => match Json.parse js with
    | .error _ => "bad-op"
    | .ok j =>
      let lines := match j.getObjValD "lines" with
        | .arr a => a.toList.map fun x => bytesOfHex (x.getStr?.toOption.getD "-")
        | _ => []
      let value := bytesOfHex ((j.getObjValD "value").getStr?.toOption.getD "-")
      let g := fun k => (j.getObjValD k).getNat?.toOption.getD 0
      showPRs (newPositionRange lines value (g "line") (g "col") (g "minCol"))
  | _ => "bad-op"

/-- op: readrange {first, last, prs:[{l,f,t}]} -/
def readrange (args : List String) : String :=
  match args with
  | [js] => match Json.parse js with
    | .error _ => "bad-op"
    | .ok j =>
      let g := fun k => (j.getObjValD k).getNat?.toOption.getD 0
      showPRs (readRange (g "first") (g "last") (prsOf (j.getObjValD "prs")))
  | _ => "bad-op"

end Driver.C06
