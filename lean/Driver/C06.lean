import Lean.Data.Json
import PintModel.Model.Position
import PintModel.Model.Inject
import Driver.Util
namespace Driver.C06
open Lean Pint.Position Driver

def bytesOfHex (s : String) : List Nat :=
  if s = "-" then [] else
  match unhexBytes s.toList with
  | some bs => bs.map (·.toNat)
  | none => []

def showPRs (l : List PR) : String := String.intercalate "," (l.map fun p => s!"{p.line}:{p.first}-{p.last}")

def prsOf (j : Json) : List PR :=
  match j with
  | .arr a => a.toList.map fun p =>
    ⟨(p.getObjValD "l").getNat?.toOption.getD 0, (p.getObjValD "f").getNat?.toOption.getD 0, (p.getObjValD "t").getNat?.toOption.getD 0⟩
  | _ => []

/-- op: npr {lines:[hex], value:hex, line, col, minCol} -/
def npr (args : List String) : String :=
  match args with
  | [js] => match Json.parse js with
    | .error _ => "bad-op"
    | .ok j =>
      let lines := match j.getObjValD "lines" with
        | .arr a => a.toList.map fun x => bytesOfHex (x.getStr?.toOption.getD "-")
        | _ => []
      let value := bytesOfHex ((j.getObjValD "value").getStr?.toOption.getD "-")
      let g := fun k => (j.getObjValD k).getNat?.toOption.getD 0
      showPRs (newPositionRange lines value (g "line") (g "col") (g "minCol"))
  | _ => "bad-op"

/-- op: readrange {first, last, prs:[{l,f,t}]} -/
def readrange (args : List String) : String :=
  match args with
  | [js] => match Json.parse js with
    | .error _ => "bad-op"
    | .ok j =>
      let g := fun k => (j.getObjValD k).getNat?.toOption.getD 0
      showPRs (readRange (g "first") (g "last") (prsOf (j.getObjValD "prs")))
  | _ => "bad-op"

/-- op: inject {n, diags:[{prs:[{l,f,t}], first, last}]} → PANIC | line:i,i;line:;... -/
def inject (args : List String) : String :=
  match args with
  | [js] => match Json.parse js with
    | .error _ => "bad-op"
    | .ok j =>
      let n := (j.getObjValD "n").getNat?.toOption.getD 0
      let ds : List Pint.Inject.Diag := match j.getObjValD "diags" with
        | .arr a => a.toList.map fun d =>
          { pos := prsOf (d.getObjValD "prs"), firstCol := (d.getObjValD "first").getInt?.toOption.getD 0,
            lastCol := (d.getObjValD "last").getInt?.toOption.getD 0 }
        | _ => []
      match Pint.Inject.inject n ds with
      | none => "PANIC"
      | some ls => String.intercalate ";" (ls.map fun (l, is) => s!"{l}:" ++ String.intercalate "," (is.map toString))
  | _ => "bad-op"

/-- op: carets {offs:[[byte offset of every rune] per line], diags:[...]} → per written line `line:i=row,...;` with `_` for a blank -/
def carets (args : List String) : String :=
  match args with
  | [js] => match Json.parse js with
    | .error _ => "bad-op"
    | .ok j =>
      let offs : List (List Nat) := match j.getObjValD "offs" with
        | .arr a => a.toList.map fun l => match l with
          | .arr b => b.toList.map fun x => x.getNat?.toOption.getD 0
          | _ => []
        | _ => []
      let ds : List Pint.Inject.Diag := match j.getObjValD "diags" with
        | .arr a => a.toList.map fun d =>
          { pos := prsOf (d.getObjValD "prs"), firstCol := (d.getObjValD "first").getInt?.toOption.getD 0,
            lastCol := (d.getObjValD "last").getInt?.toOption.getD 0 }
        | _ => []
      match Pint.Inject.inject offs.length ds with
      | none => "PANIC"
      | some ls => String.intercalate ";" (ls.map fun (l, _) =>
          s!"{l}:" ++ String.intercalate "," ((Pint.Inject.caretRows ds l (offs.getD (l - 1) [])).map fun (i, row) =>
            s!"{i}=" ++ String.mk (row.map fun c => if c == ' ' then '_' else c)))
  | _ => "bad-op"

end Driver.C06
