import Lean.Data.Json
import PintModel.Model.Failover
namespace Driver.C15
open Lean Pint.Failover

def outcomeOf (s : String) : Outcome :=
  if s = "ok" then .ok 0
  else if s = "transport" then .transport
  else if s = "unsupported" then .unsupported
  else if s.startsWith "api:" then .api (s.drop 4).toString
  else .transport

/-- op: failover {ep, outcomes:[...]} → answer=<idx|-1> err=<idx|-1> contacted=<n> -/
def failoverOp (args : List String) : String :=
  match args with
  | [js] => match Json.parse js with
    | .error _ => "bad-op"
    | .ok j =>
      let ep := (j.getObjValD "ep").getStr?.toOption.getD ""
      let outs := match j.getObjValD "outcomes" with
        | .arr a => a.toList.map fun x => outcomeOf (x.getStr?.toOption.getD "")
        | _ => []
      -- tag every ok with its index so that the answering upstream is visible
      let tagged := (List.range outs.length).zip outs |>.map fun (i, o) => match o with | .ok _ => Outcome.ok i | x => x
      let r := failover ep tagged 0 none
      let a : Int := match r.answer with | some k => k | none => -1
      let e : Int := match r.err with | some (_, k) => k | none => -1
      s!"answer={a} err={e} contacted={r.contacted}"
  | _ => "bad-op"

end Driver.C15
