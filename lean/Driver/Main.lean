import Driver.Util
import Driver.C10
import Driver.C05
import Driver.Enable
import Driver.C13
import Driver.C15
import Driver.C17
import Driver.C20
import Driver.C11
import Driver.C06
import Driver.C19
import Driver.C03
import Driver.C14
import Driver.C04
import Driver.C16
import Driver.C01
open Driver

def dispatch (line : String) : String :=
  match fields line with
  | "reader" :: args => C10.reader args
  | "comment" :: args => C10.comment args
  | "exit" :: args => C05.exit args
  | "checks" :: args => EnableOp.checks args
  | "merge" :: args => EnableOp.merge args
  | "relaxedlines" :: args => C19.relaxedlines args
  | "strictlines" :: args => C19.strictlines args
  | "relaxedwalk" :: args => C19.relaxedwalk args
  | "strictwalk" :: args => C19.strictwalk args
  | "npr" :: args => C06.npr args
  | "readrange" :: args => C06.readrange args
  | "inject" :: args => C06.inject args
  | "carets" :: args => C06.carets args
  | "pipeline" :: args => C11.pipelineOp args
  | "monitor" :: args => C11.monitorOp args
  | "schedmon" :: args => C11.schedmonOp args
  | "depcheck" :: args => C20.depcheck args
  | "loadverdicts" :: args => C01.loadverdicts args
  | "loadcheck" :: args => C01.loadcheck args
  | "seriesverdict" :: args => C16.seriesverdict args
  | "lffull" :: args => C04.lffull args
  | "lffrag" :: args => C04.lffrag args
  | "canjoin" :: args => C04.canjoin args
  | "lfnever" :: args => C04.lfnever args
  | "lfstatic" :: args => C04.lfstatic args
  | "lfeval" :: args => C04.lfeval args
  | "lforrhs" :: args => C04.lforrhs args
  | "lfjoined" :: args => C04.lfjoined args
  | "lfanalyse" :: args => C04.lfanalyse args
  | "lfpossible" :: args => C04.lfpossible args
  | "flightlog" :: args => C14.flightlog args
  | "flightrun" :: args => C14.flightrun args
  | "cacheops" :: args => C14.cacheops args
  | "gitfold" :: args => C03.gitfold args
  | "c03states" :: args => C03.states args
  | "c03wf" :: args => C03.wf args
  | "reconcile" :: args => C17.reconcile args
  | "failover" :: args => C15.failoverOp args
  | "slice" :: args => C13.op "slice" args
  | "plan" :: args => C13.op "plan" args
  | "append" :: args => C13.op "append" args
  | "overlaps" :: args => C13.op "overlaps" args
  | "mergeseries" :: args => C13.op "mergeseries" args
  | _ => "bad-op"

partial def loop (h : IO.FS.Stream) (out : IO.FS.Stream) : IO Unit := do
  let line ← h.getLine
  if line.isEmpty then return ()
  let l := if line.endsWith "\n" then (line.dropEnd 1).toString else line
  out.putStrLn (dispatch l)
  loop h out

def main : IO Unit := do
  let out ← IO.getStdout
  loop (← IO.getStdin) out
  out.flush
