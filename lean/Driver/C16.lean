import Lean.Data.Json
import PintModel.Model.Series
namespace Driver.C16
open Lean Pint.Series

def vstr : Verdict → String
  | .none => "none" | .unknownAlert => "unknown-alert" | .error => "error" | .information => "information"
  | .bug => "bug" | .warning => "warning" | .later => "later"

/-- op: seriesverdict {probe fields} → verdict -/
def seriesverdict (args : List String) : String :=
  match args with
  | [js] => match Json.parse js with
    | .error _ => "bad-op"
    | .ok j =>
      let b := fun (f : String) => (j.getObjValD f).getBool?.toOption.getD false
      let n := fun (f : String) => (j.getObjValD f).getNat?.toOption.getD 0
      vstr (verdict { isAlerts := b "isAlerts", alertNamed := b "alertNamed", alertRuleStays := b "alertRuleStays", disabled := b "disabled", snoozed := b "snoozed", instantErr := b "instantErr",
                      instantCount := n "instantCount", bareEmpty := b "bareEmpty", baseErr := b "baseErr", baseRanges := n "baseRanges",
                      producer := b "producer", otherServers := b "otherServers", ignored := b "ignored" })
  | _ => "bad-op"

end Driver.C16
