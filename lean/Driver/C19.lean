import Lean.Data.Json
import PintModel.Model.Yaml
namespace Driver.C19
open Lean Pint.Yaml

partial def treeOf (j : Json) : Y :=
  let id := (j.getObjValD "id").getNat?.toOption.getD 0
  match (j.getObjValD "k").getStr? with
  | .ok "s" => .scalar id ((j.getObjValD "v").getStr?.toOption.getD "")
  | .ok "q" => .seq id (match j.getObjValD "c" with | .arr a => a.toList.map treeOf | _ => [])
  | .ok "m" => .map id ((j.getObjValD "r").getBool?.toOption.getD false)
      (match j.getObjValD "f" with
       | .arr a => a.toList.filterMap fun p => match p with
         | .arr kv => match kv.toList with
           | [k, v] => some (k.getStr?.toOption.getD "", treeOf v)
           | _ => none
         | _ => none
       | _ => [])
  | _ => .doc (match j.getObjValD "c" with | .arr a => a.toList.map treeOf | _ => [])

def ids (l : List Y) : String := String.intercalate "," (l.map fun y => toString y.id)

/-- op: relaxedwalk <tree> → ids of the nodes parseRule keeps; strictwalk <tree> → "notok" | ids -/
def relaxedwalk (args : List String) : String :=
  match args with
  | [js] => match Json.parse js with
    | .ok j => ids (relaxed none (treeOf j))
    | .error _ => "bad-op"
  | _ => "bad-op"

def strictwalk (args : List String) : String :=
  match args with
  | [js] => match Json.parse js with
    | .ok j => let t := treeOf j; if strictOK t then ids (strictRules t) else "notok"
    | .error _ => "bad-op"
  | _ => "bad-op"

def linesOf (l : List Y) : String := String.intercalate "," (l.map fun y => toString (y.id / 1000))

/-- ops used by the harness: the same walks, answered as the first line of every kept node -/
def relaxedlines (args : List String) : String :=
  match args with
  | [js] => match Json.parse js with
    | .ok j => linesOf (relaxed none (treeOf j))
    | .error _ => "bad-op"
  | _ => "bad-op"

def strictlines (args : List String) : String :=
  match args with
  | [js] => match Json.parse js with
    | .ok j => let t := treeOf j; if strictOK t then linesOf (strictRules t) else "notok"
    | .error _ => "bad-op"
  | _ => "bad-op"

end Driver.C19
