import Lean.Data.Json
import PintModel.Model.Dependency
namespace Driver.C20
open Lean Pint.Dependency

def strsOf (j : Json) : List String :=
  match j with | .arr a => a.toList.filterMap fun x => x.getStr?.toOption | _ => []

def entryOf (j : Json) : DEntry :=
  { path := (j.getObjValD "path").getNat?.toOption.getD 0
    isSymlink := (j.getObjValD "isSymlink").getBool?.toOption.getD false
    kind := match (j.getObjValD "kind").getStr? with | .ok "alerting" => .alerting | .ok "recording" => .recording | _ => .invalid
    name := (j.getObjValD "name").getStr?.toOption.getD ""
    nameRank := (j.getObjValD "nameRank").getNat?.toOption.getD 0
    removed := (j.getObjValD "removed").getBool?.toOption.getD false
    hasError := (j.getObjValD "hasError").getBool?.toOption.getD false
    syntaxError := (j.getObjValD "syntaxError").getBool?.toOption.getD false
    exprLine := (j.getObjValD "exprLine").getNat?.toOption.getD 0
    sels := match j.getObjValD "sels" with
      | .arr a => a.toList.map fun s => ⟨(s.getObjValD "name").getStr?.toOption.getD "", strsOf (s.getObjValD "alertnameEq"), strsOf (s.getObjValD "nameEq")⟩
      | _ => [] }

/-- op: depcheck {r: idx, entries:[…]} → none | path:line:name;… -/
def depcheck (args : List String) : String :=
  match args with
  | [js] => match Json.parse js with
    | .error _ => "bad-op"
    | .ok j =>
      let es := match j.getObjValD "entries" with | .arr a => a.toList.map entryOf | _ => []
      let i := (j.getObjValD "r").getNat?.toOption.getD 0
      match es[i]? with
      | none => "bad-op"
      | some r => match check r es with
        | none => "none"
        | some ks => String.intercalate ";" (ks.map fun k => s!"{k.1}:{k.2.1}:{k.2.2}")
  | _ => "bad-op"

end Driver.C20
