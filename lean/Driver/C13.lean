import Lean.Data.Json
import PintModel.Model.Range
namespace Driver.C13
open Lean Pint.Range

def int (j : Json) (k : String) : Int := (j.getObjValD k).getInt?.toOption.getD 0

def mtrOf (j : Json) : MTR :=
  match j with
  | .arr a => match a.toList with
    | [f, s, e] => ⟨(f.getNat?.toOption.getD 0), s.getInt?.toOption.getD 0, e.getInt?.toOption.getD 0⟩
    | _ => default
  | _ => default

def mtrs (j : Json) : List MTR := match j with | .arr a => a.toList.map mtrOf | _ => []

def showTRs (l : List TR) : String := String.intercalate "," (l.map fun t => s!"{t.s}:{t.e}")
def showMTRs (l : List MTR) : String := String.intercalate "," (l.map fun t => s!"{t.fp}:{t.s}:{t.e}")

def op (name : String) (args : List String) : String :=
  match args with
  | [js] => match Json.parse js with
    | .error _ => "bad-op"
    | .ok j =>
      if name = "slice" then
        match sliceRange (int j "start") (int j "end") (int j "res") (int j "size") with
        | some l => showTRs l | none => "none"
      else if name = "plan" then
        match plan (int j "start") (int j "end") (int j "lookback") (int j "step") with
        | some l => showTRs l | none => "none"
      else if name = "append" then
        let vals := match j.getObjValD "vals" with | .arr a => a.toList.map (fun x => x.getInt?.toOption.getD 0) | _ => []
        showMTRs (appendSamples (int j "step") (int j "fp").toNat vals (mtrs (j.getObjValD "dst")))
      else if name = "overlaps" then
        match overlaps (mtrOf (j.getObjValD "a")) (mtrOf (j.getObjValD "b")) (int j "step") with
        | some t => s!"{t.s}:{t.e}" | none => "none"
      else if name = "mergeseries" then
        showMTRs (mergeSeries (int j "step") (mtrs (j.getObjValD "l")))
      else "bad-op"
  | _ => "bad-op"

end Driver.C13
