import Lean.Data.Json
import PintModel.Model.Git
namespace Driver.C03
open Lean Pint.Git

def stOf (s : String) : St :=
  match s with | "A" => .A | "C" => .C | "D" => .D | "R" => .R | "T" => .T | _ => .M
def stStr : St → String | .A => "A" | .C => "C" | .D => "D" | .M => "M" | .R => "R" | .T => "T"

def recOf (j : Json) : Rec :=
  { commit := (j.getObjValD "c").getNat?.toOption.getD 0
    st := stOf ((j.getObjValD "st").getStr?.toOption.getD "")
    src := (j.getObjValD "src").getStr?.toOption.getD ""
    dst := (j.getObjValD "dst").getStr?.toOption.getD ""
    exBefore := (j.getObjValD "ex").getBool?.toOption.getD false }

def recsOf (j : Json) : List Rec :=
  match j.getObjValD "records" with | .arr a => a.toList.map recOf | _ => []

def entOf (j : Json) : Ent :=
  { alert := (j.getObjValD "a").getBool?.toOption.getD false
    name := (j.getObjValD "n").getStr?.toOption.getD ""
    content := (j.getObjValD "c").getNat?.toOption.getD 0
    disabled := (j.getObjValD "d").getNat?.toOption.getD 0
    path := "" }

def snapOf (j : Json) : Snap :=
  match j with
  | .arr fs => fs.toList.map fun f =>
      ((f.getObjValD "p").getStr?.toOption.getD "",
       match f.getObjValD "r" with | .arr es => es.toList.map entOf | _ => [])
  | _ => []

def stateStr : State → String
  | .noop => "unmodified" | .added => "added" | .modified => "modified" | .moved => "renamed" | .removed => "removed"

def insertSorted (x : String) : List String → List String
  | [] => [x]
  | y :: ys => if x ≤ y then x :: y :: ys else y :: insertSorted x ys
def sortStrs (l : List String) : List String := l.foldr insertSorted []

/-- op: gitfold {records:[…]} → st:before:after:c1,c2;… (Go order) -/
def gitfold (args : List String) : String :=
  match args with
  | [js] => match Json.parse js with
    | .error _ => "bad-op"
    | .ok j => String.intercalate ";" ((changes (recsOf j)).map fun c =>
        s!"{stStr c.st}:{c.before}:{c.after}:{String.intercalate "," (c.commits.map toString)}")
  | _ => "bad-op"

/-- op: c03states {records:[…], snaps:[[{p,r:[{a,n,c,d}]}]]} → sorted path|alert|name=state;… -/
def states (args : List String) : String :=
  match args with
  | [js] => match Json.parse js with
    | .error _ => "bad-op"
    | .ok j =>
      let snaps := match j.getObjValD "snaps" with | .arr a => a.toList.map snapOf | _ => []
      let out := (headStates snaps (recsOf j)).map fun (e, s) => s!"{e.path}|{e.alert}|{e.name}|{e.content}={stateStr s}"
      String.intercalate ";" (sortStrs out)
  | _ => "bad-op"

/-- op: c03wf {records, base:[paths]} → whether the history is well formed for the reference tree, and the lineage
of the live files: path<origin<commits -/
def wf (args : List String) : String :=
  match args with
  | [js] => match Json.parse js with
    | .error _ => "bad-op"
    | .ok j =>
      let base := match j.getObjValD "base" with | .arr a => a.toList.filterMap fun x => x.getStr?.toOption | _ => []
      let rs := recsOf j
      let t := run (baseTree base) rs
      let live := sortStrs ((t.live.filter touched).map fun f => s!"{f.path}<{f.origin}<{String.intercalate "," (f.commits.map toString)}")
      s!"{wfB (baseTree base) rs} {String.intercalate ";" live}"
  | _ => "bad-op"

end Driver.C03
