import Lean.Data.Json
import PintModel.Model.Enable
import Driver.Util
namespace Driver.EnableOp
open Lean Pint.Enable

def strs (j : Json) : List String :=
  match j with
  | .arr a => a.toList.filterMap fun x => x.getStr?.toOption
  | _ => []

def pairOf (j : Json) : Option (String × String) :=
  match j with
  | .arr a => match a.toList with
    | [x, y] => match x.getStr?, y.getStr? with
      | .ok a, .ok b => some (a, b)
      | _, _ => none
    | _ => none
  | _ => none

def pairs (j : Json) : List (String × String) :=
  match j with
  | .arr a => a.toList.filterMap pairOf
  | _ => []

def durOp (s : String) : Option DurOp :=
  if s = "<" then some .lt else if s = "<=" then some .le else if s = "=" then some .eq
  else if s = "!=" then some .ne else if s = ">=" then some .ge else if s = ">" then some .gt else none

def durMatch (j : Json) : Option (DurOp × Nat) :=
  match j with
  | .null => none
  | _ => match (j.getObjValD "op").getStr?, (j.getObjValD "dur").getNat? with
    | .ok o, .ok d => (durOp o).map (·, d)
    | _, _ => none

def optStr (j : Json) : Option String := match j with | .str s => some s | _ => none

def parseMatch (j : Json) : Match :=
  { command := optStr (j.getObjValD "command")
    states := strs (j.getObjValD "states")
    kind := (j.getObjValD "kind").getStr?.toOption.getD ""
    path := (j.getObjValD "path").getStr?.toOption.getD ""
    name := (j.getObjValD "name").getStr?.toOption.getD ""
    label := pairOf (j.getObjValD "label")
    annotation := pairOf (j.getObjValD "annotation")
    for_ := durMatch (j.getObjValD "for")
    keepFiringFor := durMatch (j.getObjValD "keep_firing_for") }

def matchList (j : Json) : List Match :=
  match j with | .arr a => a.toList.map parseMatch | _ => []

def parseState (s : String) : State :=
  if s = "noop" then .noop else if s = "added" then .added else if s = "modified" then .modified
  else if s = "removed" then .removed else if s = "moved" then .moved else .unknown

def ruleDur (j : Json) : RuleDur :=
  match (j.getObjValD "k").getStr? with
  | .ok "absent" => .absent
  | .ok "unparsable" => .unparsable
  | .ok "dur" => match (j.getObjValD "d").getNat? with | .ok d => .dur d | _ => .unparsable
  | _ => .absent

def parseEntry (j : Json) : Entry :=
  { path := (j.getObjValD "path").getStr?.toOption.getD ""
    kind := match (j.getObjValD "kind").getStr? with | .ok "alerting" => .alerting | .ok "recording" => .recording | _ => .invalid
    name := (j.getObjValD "name").getStr?.toOption.getD ""
    labels := pairs (j.getObjValD "labels")
    annotations := match j.getObjValD "annotations" with | .null => none | a => some (pairs a)
    forDur := ruleDur (j.getObjValD "for")
    keepFiringFor := ruleDur (j.getObjValD "keep_firing_for")
    state := parseState ((j.getObjValD "state").getStr?.toOption.getD "")
    fileDisabled := strs (j.getObjValD "fileDisabled")
    ruleDisable := strs (j.getObjValD "ruleDisable")
    ruleSnooze := match j.getObjValD "ruleSnooze" with
      | .arr a => a.toList.filterMap fun x => match x with
        | .arr p => match p.toList with
          | [.bool b, .str s] => some (b, s)
          | _ => none
        | _ => none
      | _ => []
    hasError := (j.getObjValD "hasError").getBool?.toOption.getD false }

structure Parsed where
  cmd : String
  enabled : List String
  disabled : List String
  rules : List CfgRule
  entry : Entry
  insts : List Inst
  re : Re

def parse (j : Json) : Parsed :=
  let cmd := (j.getObjValD "cmd").getStr?.toOption.getD ""
  let rawRules : List (List Match × List Match × List String × List String) :=
    match j.getObjValD "rules" with
    | .arr a => a.toList.map fun r => (matchList (r.getObjValD "match"), matchList (r.getObjValD "ignore"), strs (r.getObjValD "enable"), strs (r.getObjValD "disable"))
    | _ => []
  let dflt := defaultMatchStates cmd
  let insts : List Inst :=
    match j.getObjValD "insts" with
    | .arr a => a.toList.map fun i =>
      let ri : Int := (i.getObjValD "rule").getInt?.toOption.getD (-1)
      let (m, ig) : List Match × List Match :=
        if ri < 0 then ([{ states := dflt }], [])
        else match rawRules[ri.toNat]? with
          | some (m, ig, _, _) => (defaultRuleMatch m dflt, ig)
          | none => ([], [])
      { name := (i.getObjValD "name").getStr?.toOption.getD ""
        str := (i.getObjValD "str").getStr?.toOption.getD ""
        reporter := (i.getObjValD "reporter").getStr?.toOption.getD ""
        states := (strs (i.getObjValD "states")).map parseState
        always := (i.getObjValD "always").getBool?.toOption.getD false
        tags := strs (i.getObjValD "tags")
        locked := (i.getObjValD "locked").getBool?.toOption.getD false
        match_ := m, ignore := ig }
    | _ => []
  let tab := pairs (j.getObjValD "re")
  { cmd := cmd, enabled := strs (j.getObjValD "enabled"), disabled := strs (j.getObjValD "disabled")
    rules := rawRules.map fun (m, ig, en, di) => ⟨m, ig, en, di⟩
    entry := parseEntry (j.getObjValD "entry"), insts := insts
    re := fun p s => tab.contains (p, s) }

/-- op: checks <json> → String() of the selected checks joined by "|" -/
def checks (args : List String) : String :=
  match args with
  | [js] => match Json.parse js with
    | .ok j =>
      let p := parse j
      String.intercalate "|" ((getChecks p.re p.cmd p.enabled p.disabled p.rules p.entry p.insts).map (·.str))
    | .error _ => "bad-op"
  | _ => "bad-op"

/-- op: merge <json {a:[[k,v]..], b:[[k,v]..]}> → merged items -/
def merge (args : List String) : String :=
  match args with
  | [js] => match Json.parse js with
    | .ok j =>
      let r := mergeLabels (pairs (j.getObjValD "a")) (pairs (j.getObjValD "b"))
      (Json.arr (r.map fun p => Json.arr #[Json.str p.1, Json.str p.2]).toArray).compress
    | .error _ => "bad-op"
  | _ => "bad-op"

end Driver.EnableOp
