import Lean.Data.Json
import PintModel.Model.Reconcile
namespace Driver.C17
open Lean Pint.Reconcile

/-- op: reconcile {existing:n, pending:m, budget, canDelete:[bool], eq:[[e,p]...]} → C:<created pending idx>|D:<deleted existing idx> -/
def reconcile (args : List String) : String :=
  match args with
  | [js] => match Json.parse js with
    | .error _ => "bad-op"
    | .ok j =>
      let n := (j.getObjValD "existing").getNat?.toOption.getD 0
      let m := (j.getObjValD "pending").getNat?.toOption.getD 0
      let budget := (j.getObjValD "budget").getNat?.toOption.getD 0
      let canDel : List Bool := match j.getObjValD "canDelete" with
        | .arr a => a.toList.map fun x => x.getBool?.toOption.getD false | _ => []
      let eq : List (Nat × Nat) := match j.getObjValD "eq" with
        | .arr a => a.toList.filterMap fun x => match x with
          | .arr p => match p.toList with
            | [a, b] => some (a.getNat?.toOption.getD 0, b.getNat?.toOption.getD 0)
            | _ => none
          | _ => none
        | _ => []
      let isEq : Nat → Nat → Bool := fun e p => eq.contains (e, p)
      let existing := List.range n
      let pending := List.range m
      let cr := creates isEq existing budget pending 0
      let dl := deletes isEq (fun e => canDel.getD e false) existing pending
      "C:" ++ String.intercalate "," (cr.map toString) ++ "|D:" ++ String.intercalate "," (dl.map toString)
  | _ => "bad-op"

end Driver.C17
