import PintModel.Model.Reader
import Driver.Util
namespace Driver.C10
open Pint.Comments Pint.Reader Driver

def b (x : Bool) : String := if x then "1" else "0"

/-- op: reader <lastNL> <validts: comma-separated hex> <hexline>...
    answer: st=<flags>|M:<hex of all masked bytes>|C:<file comments>|D:<diagnostics> -/
def reader (args : List String) : String :=
  match args with
  | lastNL :: ts :: lines =>
    let valid := (if ts = "-" then [] else ts.splitOn ",").filterMap unhex
    match lines.mapM unhex with
    | none => "bad-op"
    | some ls =>
      let tsOk := fun (s : List Char) => valid.contains (String.ofList s)
      let (st, outs) := run tsOk (lastNL = "1") (ls.map String.toList)
      let masked := String.intercalate "\n" (outs.map fun o => String.ofList o.masked) ++ (if lastNL = "1" then "\n" else "")
      let cs := outs.flatMap fun o => o.fileComments.map fun c => hex c.render
      let ds := outs.flatMap fun o => o.diags.map fun d => s!"{d.line}:{d.firstCol}:{d.lastCol}"
      s!"st={b st.skipAll}{b st.skipNext}{b st.autoReset}{b st.inBegin}|M:{hex masked}|C:" ++ String.intercalate "," cs
        ++ "|D:" ++ String.intercalate "," ds
  | _ => "bad-op"

/-- op: comment <validts> <hexline> : parseComment alone -/
def comment (args : List String) : String :=
  match args with
  | [ts, l] =>
    let valid := (if ts = "-" then [] else ts.splitOn ",").filterMap unhex
    match unhex l with
    | none => "bad-op"
    | some s => match parseComment (fun x => valid.contains (String.ofList x)) s.toList with
      | none => "none"
      | some c => hex c.render
  | _ => "bad-op"

end Driver.C10
