import PintModel.Model.Comments
import PintModel.Model.Reader
import PintModel.Spec.Exclude
