#!/bin/sh
# Built once after a fresh restore, offline. Everything comes from files on disk.
set -e
cd "$(dirname "$0")"
mkdir -p .build out evidence
export GOFLAGS=-mod=mod GOPROXY=off GOCACHE="$PWD/.build/gocache"
unset GOTOOLCHAIN GOSUMDB || true
(cd tools/extract && go build -o ../../.build/extract .)
mkdir -p lean/PintModel/Gen
.build/extract -repo /repo -out lean/PintModel/Gen
(cd lean && lake build PintModel driver)
cp /repo/go.sum harness/go.sum
(cd harness && go build -tags "verif stringlabels" -o ../.build/corr ./cmd/corr)
echo setup-ok
