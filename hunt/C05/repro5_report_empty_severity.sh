#!/bin/bash
# report { severity = "" } passes config validation and is turned into Fatal.
PINT=${1:-/tmp/pint-fixed}
D=$(mktemp -d /tmp/hunt-C05-r5.XXXXXX)
cd "$D" || exit 2
cat > rules.yml <<'EOF'
groups:
- name: g
  rules:
  - record: foo
    expr: sum(bar)
EOF
cat > empty.hcl <<'EOF'
rule {
  report {
    comment  = "x"
    severity = ""
  }
}
EOF
cat > invalid.hcl <<'EOF'
rule {
  report {
    comment  = "x"
    severity = "information"
  }
}
EOF
"$PINT" --no-color -c invalid.hcl lint --fail-on fatal rules.yml 2> invalid.log
echo "severity=\"information\": exit=$? ; $(grep -o 'unknown severity.*' invalid.log)   (config rejected, as expected)"
"$PINT" --no-color -c empty.hcl lint --fail-on fatal rules.yml 2> empty.log
echo "severity=\"\": exit=$?   (expected: config rejected like any other unknown severity)"
grep -E '^(Fatal|Bug|Warning|Information):' empty.log | sed 's/^/    /'
grep 'Problems found' empty.log
