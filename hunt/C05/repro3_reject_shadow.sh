#!/bin/bash
# reject block with label_keys = true and annotation_keys = true:
# the annotation check is never run, the Bug is not reported, exit status 0.
PINT=${1:-/tmp/pint-fixed}
D=$(mktemp -d /tmp/hunt-C05-r3.XXXXXX)
cd "$D" || exit 2
cat > rules.yml <<'EOF'
groups:
- name: g
  rules:
  - alert: A
    expr: up == 0
    annotations:
      bad_key: "x"
EOF
cat > ann.hcl <<'EOF'
rule {
  reject "bad_.*" {
    annotation_keys = true
  }
}
EOF
cat > both.hcl <<'EOF'
rule {
  reject "bad_.*" {
    label_keys      = true
    annotation_keys = true
  }
}
EOF
for c in ann both; do
  "$PINT" --no-color -c $c.hcl lint rules.yml 2> $c.log
  echo "$c.hcl: exit=$?  (expected 1)  Bug reports: $(grep -c '^Bug' $c.log)"
done
