#!/bin/bash
# pint ci loses the Fatal YAML parse error of a changed file when the same file
# also has another path level error (an invalid pint comment): exit status 0.
# Usage: repro1_ci_two_path_errors.sh [path-to-pint-binary]
PINT=${1:-/tmp/pint-fixed}
D=$(mktemp -d /tmp/hunt-C05-r1.XXXXXX)
cd "$D" || exit 2
git init -q -b main .
git config user.email a@b
git config user.name n
printf 'groups:\n- name: g\n  rules:\n  - record: foo\n    expr: sum(bar)\n' > rules.yml
git add rules.yml
git commit -qm init
git checkout -qb feat

# control: only the YAML error
printf 'groups:\n- name: g\n  rules:\n  - record: foo\n    expr: sum(bar)\n  bogus\n' > new.yml
git add new.yml
git commit -qm "add new.yml with a YAML error"
"$PINT" --no-color ci --base-branch main 2> control.log
echo "control (YAML error only):             pint ci exit=$?   (expected 1)"
grep -c '^Fatal' control.log | sed 's/^/  Fatal reports printed: /'

# same YAML error + an invalid pint comment on line 1
printf '# pint file/owner\ngroups:\n- name: g\n  rules:\n  - record: foo\n    expr: sum(bar)\n  bogus\n' > new.yml
git commit -qam "also add an invalid pint comment"
"$PINT" --no-color lint new.yml 2> lint.log
echo "pint lint new.yml:                      exit=$?   (expected 1)"
grep -c '^Fatal' lint.log | sed 's/^/  Fatal reports printed: /'
"$PINT" --no-color ci --base-branch main 2> ci.log
rc=$?
echo "pint ci (YAML error + invalid comment): exit=$rc   (expected 1)"
grep -c '^Fatal' ci.log | sed 's/^/  Fatal reports printed: /'
grep '^level=INFO msg="Problems found"' ci.log
if [ $rc -eq 0 ]; then echo "DEFECT REPRODUCED: parse failure not reported, exit status 0"; fi
