#!/bin/bash
# The path given with --config is appended to parser.exclude and compiled as
# "^" + path + "$" with regexp.MustCompile: a config file name that is not a
# valid regexp crashes pint (exit status 2) on a rule file without any problem.
PINT=${1:-/tmp/pint-fixed}
D=$(mktemp -d /tmp/hunt-C05-r6.XXXXXX)
cd "$D" || exit 2
cat > rules.yml <<'EOF'
groups:
- name: g
  rules:
  - record: foo
    expr: sum(bar)
EOF
printf 'parser {\n  relaxed = []\n}\n' > 'pint.hcl'
cp pint.hcl 'pint(ci.hcl'
"$PINT" --no-color -c 'pint.hcl' lint rules.yml 2> ok.log
echo "-c pint.hcl:      exit=$?  (expected 0)"
"$PINT" --no-color -c 'pint(ci.hcl' lint rules.yml 2> crash.log
echo "-c 'pint(ci.hcl': exit=$?  (expected 0)"
grep -m1 '^panic' crash.log
