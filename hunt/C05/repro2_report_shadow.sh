#!/bin/bash
# Two config rules with a `report` block match the same Prometheus rule.
# Only the first one (in config file order) is ever run, so the exit status
# depends on the order of the rule blocks in the config file.
PINT=${1:-/tmp/pint-fixed}
D=$(mktemp -d /tmp/hunt-C05-r2.XXXXXX)
cd "$D" || exit 2
cat > rules.yml <<'EOF'
groups:
- name: g
  rules:
  - alert: A
    expr: up == 0
EOF
cat > warn_first.hcl <<'EOF'
rule {
  match { kind = "alerting" }
  report {
    comment  = "alerting rules in this directory are deprecated"
    severity = "warning"
  }
}
rule {
  match { name = "A" }
  report {
    comment  = "alert A must not be deployed"
    severity = "bug"
  }
}
EOF
cat > bug_first.hcl <<'EOF'
rule {
  match { name = "A" }
  report {
    comment  = "alert A must not be deployed"
    severity = "bug"
  }
}
rule {
  match { kind = "alerting" }
  report {
    comment  = "alerting rules in this directory are deprecated"
    severity = "warning"
  }
}
EOF
for c in warn_first bug_first; do
  "$PINT" --no-color -c $c.hcl lint -n info rules.yml 2> $c.log
  echo "$c.hcl: exit=$?  reports: $(grep -c 'rule/report' $c.log)  (expected exit=1 and 2 reports for both configs)"
  grep -E '^(Bug|Warning|Fatal|Information):' $c.log | sed 's/^/    /'
done
