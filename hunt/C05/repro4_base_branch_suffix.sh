#!/bin/bash
# pint ci decides "running from base branch" by comparing the current branch with
# the LAST "/" separated component of the base branch name. A branch called "v1"
# checked against base branch "release/v1" is never linted: exit status 0
# although the branch adds a rule with a PromQL syntax error (Fatal).
PINT=${1:-/tmp/pint-fixed}
D=$(mktemp -d /tmp/hunt-C05-r4.XXXXXX)
cd "$D" || exit 2
git init -q -b release/v1 .
git config user.email a@b
git config user.name n
printf 'groups:\n- name: g\n  rules:\n  - record: foo\n    expr: sum(bar)\n' > rules.yml
git add rules.yml
git commit -qm init
git checkout -qb v1
printf '  - record: broken\n    expr: sum(bar\n' >> rules.yml
git commit -qam "add broken rule"
"$PINT" --no-color ci --base-branch release/v1 2> v1.log
echo "branch v1 vs base release/v1: exit=$?  (expected 1)"
grep 'skipping checks' v1.log
git branch -m v2
"$PINT" --no-color ci --base-branch release/v1 2> v2.log
echo "same commits, branch renamed to v2: exit=$?  (expected 1)"
grep -c '^Fatal' v2.log | sed 's/^/  Fatal reports printed: /'
