#!/bin/bash
# Same root cause as repro4 on GitHub: the old-file line of a removed rule is looked up in the
# table of NEW-file lines (fixCommentLine/diffLineFor), so the LEFT-side comment lands on a line
# that does not belong to the removed rule.
source "$(dirname "$0")/lib.sh"
new_repo
cat > rec.yml <<'EOR'
groups:
- name: rec
  rules:
  - record: job:up:sum
    expr: sum(up) by (job)
  - record: job:up:count
    expr: count(up) by (job)
  - record: job:up:min
    expr: min(up) by (job)
EOR
cat > user.yml <<'EOR'
groups:
- name: user
  rules:
  - alert: Down
    expr: job:up:sum == 0
EOR
commit base
git checkout -q -b feature
# replace the first recording rule (old lines 4-5) by another one
sed -i '4s/.*/  - record: job:up:avg/; 5s/.*/    expr: avg(up) by (job)/' rec.yml
commit "replace job:up:sum"
echo "--- PR diff of rec.yml:"; git diff main...HEAD -- rec.yml | sed -n '5,$p'
start_forge
github_cfg 50
run_ci
grep -A1 '^Warning' "$WORK/run.$RUN.log"
q '[(c["path"], c["side"], c["line"]) for c in S["github_comments"]]'
echo "expected: ('rec.yml', 'LEFT', 5) (or 4): the removed rule is old lines 4-5; old line 6 is the untouched 'record: job:up:count'"
