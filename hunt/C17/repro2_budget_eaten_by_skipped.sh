#!/bin/bash
# GitHub, maxComments=1. The first pending comment is one that Create() silently skips
# (problem on a removed file: its patch has only "-" lines, parseDiffLines() returns nothing),
# but updateDestination counts it as created, so the budget is used up on every run and
# the second problem never gets its comment, however many times the run is repeated.
source "$(dirname "$0")/lib.sh"
new_repo
cat > a.yml <<'EOR'
groups:
- name: rec
  rules:
  - record: job:up:sum
    expr: sum(up) by (job)
EOR
cat > c.yml <<'EOR'
groups:
- name: user
  rules:
  - alert: Down
    expr: job:up:sum == 0
EOR
cat > z.yml <<'EOR'
groups:
- name: g
  rules:
  - alert: Ok
    expr: up == 0
EOR
commit base
git checkout -q -b feature
git rm -q a.yml
cat >> z.yml <<'EOR'
  - alert: Foo
    expr: sum(up) == 0
    annotations:
      summary: "{{ $labels.job }} is down"
EOR
commit "remove a.yml, add Foo"
start_forge
github_cfg 1
for i in 1 2 3 4; do
  run_ci
  echo "   line comments on the PR now: $(q 'len(S["github_comments"])')"
done
echo "--- problems on the console of the last run:"
grep -E '^(Bug|Warning|Fatal|Information)|--->' "$WORK/run.$RUN.log"
echo "--- debug log of the last run (why nothing is created):"
GITLAB_AUTH_TOKEN=x GITHUB_AUTH_TOKEN=x GITHUB_PULL_REQUEST_NUMBER=1 "$PINT" --offline --no-color -l debug -c "$WORK/pint.hcl" ci 2>&1 |
  grep -E 'Skipping report|Cannot create|needs to be created' 
echo "--- line comments on the PR: $(q 'len(S["github_comments"])') (expected: z.yml:6-9 covered after at most 2 runs)"
