#!/bin/bash
# Two problems of one check on the same lines whose Summary is equal but whose
# diagnostics differ: only the first one makes it into the comment.
source "$(dirname "$0")/lib.sh"
new_repo
cat > rules.yml <<'EOR'
groups:
- name: g
  rules:
  - alert: Ok
    expr: up == 0
EOR
commit base
git checkout -q -b feature
cat >> rules.yml <<'EOR'
  - alert: Foo
    expr: sum(up) == 0
    annotations:
      summary: "{{ $labels.job }} on {{ $labels.instance }} is down"
EOR
commit "add Foo"
start_forge
gitlab_cfg 50
run_ci
echo "--- console report of the run (two problems):"
grep -A8 '^Bug' "$WORK/run.1.log"
echo "--- GitLab comments after the run:"
q 'len(S["gitlab_discussions"])'
q '"\n".join(n["body"] for d in S["gitlab_discussions"] for n in d["notes"])'
echo "--- does any comment mention the job label problem / the instance label problem?"
q '[("`job` label" in n["body"], "`instance` label" in n["body"]) for d in S["gitlab_discussions"] for n in d["notes"]]'
