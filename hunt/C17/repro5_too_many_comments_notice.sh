#!/bin/bash
# GitHub, 2 problems (2 comments), maxComments=1. Run 1 creates one comment, run 2 the other one.
# From run 2 on nothing is deferred by the budget any more, yet every run posts another
# "would create 2 comment(s) ... 1 comment(s) were skipped and won't be visibile" general comment:
# the notice is computed from len(reports) vs maxComments, not from what was actually deferred,
# and the GitHub reporter does not look for an identical general comment before posting.
source "$(dirname "$0")/lib.sh"
new_repo
cat > rules.yml <<'EOR'
groups:
- name: g
  rules:
  - alert: Ok
    expr: up == 0
EOR
commit base
git checkout -q -b feature
for i in 1 2; do
cat >> rules.yml <<EOR
  - alert: Foo$i
    expr: sum(up) == $i
    annotations:
      summary: "{{ \$labels.l$i }} is down"
EOR
done
commit "add 2 bad rules"
start_forge
github_cfg 1
for i in 1 2 3 4 5; do
  before=$(log_len)
  run_ci
  echo "   requests of this run: $(q "[e['op'] for e in S['log'][$before:]]")"
done
echo "--- line comments: $(q 'len(S["github_comments"])'), general comments: $(q 'len(S["github_issue_comments"])')"
q 'S["github_issue_comments"][-1]["body"]'
echo "expected: runs 3.. create nothing; no 'skipped' notice once both comments exist"
