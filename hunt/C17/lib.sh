# shared helpers for the reproducers; source it.
# Needs: /tmp/pint-C17 built with
#   GOFLAGS=-mod=mod GOPROXY=off go build -tags stringlabels -o /tmp/pint-C17 ./cmd/pint
HUNT_DIR="$(cd "$(dirname "${BASH_SOURCE[0]}")" && pwd)"
PINT="${PINT:-/tmp/pint-C17}"

# new_repo: creates a scratch git repo, cd's into it, on branch main
new_repo() {
  mkdir -p "$HUNT_DIR/work"; WORK="$(mktemp -d "$HUNT_DIR/work/XXXXXX")"
  REPO="$WORK/repo"
  STATE="$WORK/state.json"
  mkdir -p "$REPO"
  cd "$REPO" || exit 1
  git init -q -b main .
  git config user.email a@b.c
  git config user.name tester
  git config commit.gpgsign false
}

commit() { git add -A . && git commit -q -m "$1"; }

# start_forge: starts the fake GitLab/GitHub on a free port
start_forge() {
  PORT="$(python3 -c 'import socket; s=socket.socket(); s.bind(("127.0.0.1",0)); print(s.getsockname()[1])')"
  python3 "$HUNT_DIR/fakeforge.py" "$PORT" "$REPO" main "$STATE" &
  FORGE_PID=$!
  trap 'kill $FORGE_PID 2>/dev/null; [ -n "$KEEP" ] || rm -rf "$WORK"' EXIT
  for _ in $(seq 50); do
    python3 - "$PORT" <<'EOF' && break
import socket, sys
s = socket.socket()
try:
    s.connect(("127.0.0.1", int(sys.argv[1])))
except Exception:
    sys.exit(1)
EOF
    sleep 0.1
  done
}

# gitlab_cfg MAXCOMMENTS / github_cfg MAXCOMMENTS: write .pint.hcl (kept out of git via $WORK)
gitlab_cfg() {
  cat > "$WORK/pint.hcl" <<EOF
ci { baseBranch = "main" }
repository {
  gitlab {
    uri         = "http://127.0.0.1:$PORT"
    project     = 1
    timeout     = "20s"
    maxComments = $1
  }
}
EOF
}

github_cfg() {
  cat > "$WORK/pint.hcl" <<EOF
ci { baseBranch = "main" }
repository {
  github {
    baseuri     = "http://127.0.0.1:$PORT"
    uploaduri   = "http://127.0.0.1:$PORT"
    owner       = "o"
    repo        = "r"
    timeout     = "20s"
    maxComments = $1
  }
}
EOF
}

# run_ci: one reporting run; console report goes to $WORK/run.N.log
RUN=0
run_ci() {
  RUN=$((RUN + 1))
  GITLAB_AUTH_TOKEN=x GITHUB_AUTH_TOKEN=x GITHUB_PULL_REQUEST_NUMBER=1 \
    "$PINT" --offline --no-color -c "$WORK/pint.hcl" ci > "$WORK/run.$RUN.log" 2>&1
  echo "run $RUN: pint ci exit code $?"
}

# q EXPR: evaluates a python expression over the state (S) and the log slice of the last run
q() { python3 -c "import json,sys; S=json.load(open('$STATE')); print($1)"; }
log_len() { q 'len(S["log"])'; }
