#!/bin/bash
# GitLab, a problem anchored on a removed rule (rule/dependency). Create() looks the old-file
# line up in a table keyed by NEW-file line numbers and posts old_line = something else;
# List()/IsEqual() then compare that stored line with the pending line, never match, and
# every run deletes the comment of the previous run and creates it again.
source "$(dirname "$0")/lib.sh"
new_repo
cat > rec.yml <<'EOR'
groups:
- name: rec
  rules:
  - record: job:up:sum
    expr: sum(up) by (job)
  - record: job:up:count
    expr: count(up) by (job)
  - record: job:up:min
    expr: min(up) by (job)
  - record: job:up:max
    expr: max(up) by (job)
EOR
cat > user.yml <<'EOR'
groups:
- name: user
  rules:
  - alert: Down
    expr: job:up:sum == 0
EOR
commit base
git checkout -q -b feature
# remove the first recording rule (old lines 4-5)
sed -i '4,5d' rec.yml
commit "remove job:up:sum"
echo "--- MR diff of rec.yml:"; git diff main...HEAD -- rec.yml | sed -n '5,$p'
start_forge
gitlab_cfg 50
for i in 1 2 3; do
  before=$(log_len)
  run_ci
  q "[(e['op'], e['note'], (e.get('position') or {}).get('old_line'), (e.get('position') or {}).get('new_line')) for e in S['log'][$before:]]"
done
echo "--- the problem, as printed on the console:"
grep -A1 '^Warning' "$WORK/run.$RUN.log"
echo "expected: removed rule is old lines 4-5 -> comment at old line 5, created once; runs 2 and 3 create/delete nothing"
