#!/bin/bash
# GitHub lists review comments 30 per page. pint asks only for the first page
# (ListComments(..., nil)), so with more than 30 comments on the PR the ones past the
# first page are not recognised and are created again on every run.
source "$(dirname "$0")/lib.sh"
new_repo
cat > rules.yml <<'EOR'
groups:
- name: g
  rules:
  - alert: Ok
    expr: up == 0
EOR
commit base
git checkout -q -b feature
for i in $(seq 1 35); do
cat >> rules.yml <<EOR
  - alert: Foo$i
    expr: sum(up) == $i
    annotations:
      summary: "{{ \$labels.l$i }} is down"
EOR
done
commit "add 35 bad rules"
start_forge
github_cfg 50
for i in 1 2 3 4; do
  before=$(log_len)
  run_ci
  echo "   created in this run: $(q "sum(1 for e in S['log'][$before:] if e['op']=='github-create')")   line comments on the PR now: $(q 'len(S["github_comments"])')"
done
echo "--- comments per (path, line, side) that exist more than once:"
q 'sorted((k,v) for k,v in __import__("collections").Counter((c["path"],c["line"],c["side"],c["body"][:0]) for c in S["github_comments"]).items() if v>1)'
