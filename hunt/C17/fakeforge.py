#!/usr/bin/env python3
"""A small stateful fake of the GitLab and GitHub REST APIs that pint talks to.

usage: fakeforge.py PORT REPO_DIR BASE_BRANCH STATE_FILE

It serves, for one merge request / pull request (number 1, project 1, repo o/r):

  GitLab (uri = http://127.0.0.1:PORT):
    GET    /api/v4/user
    GET    /api/v4/projects/1/merge_requests
    GET    /api/v4/projects/1/merge_requests/1/versions
    GET    /api/v4/projects/1/merge_requests/1/diffs          (computed with git diff BASE...HEAD)
    GET    /api/v4/projects/1/merge_requests/1/discussions
    POST   /api/v4/projects/1/merge_requests/1/discussions
    DELETE /api/v4/projects/1/merge_requests/1/discussions/D/notes/N

  GitHub (baseuri = uploaduri = http://127.0.0.1:PORT), paginated like github.com
  (per_page defaults to 30, Link: rel="next"):
    GET    /api/v3/repos/o/r/pulls/1/files                    (computed with git diff BASE...HEAD)
    GET    /api/v3/repos/o/r/pulls/1/comments
    POST   /api/v3/repos/o/r/pulls/1/comments
    GET    /api/v3/repos/o/r/pulls/1/reviews
    POST   /api/v3/repos/o/r/pulls/1/reviews
    PUT    /api/v3/repos/o/r/pulls/1/reviews/ID
    POST   /api/v3/repos/o/r/issues/1/comments

After every request the whole state (comments + a log of the mutating requests) is
written to STATE_FILE as JSON.
"""
import json
import subprocess
import sys
import urllib.parse
from http.server import BaseHTTPRequestHandler, HTTPServer

PORT = int(sys.argv[1])
REPO = sys.argv[2]
BASE = sys.argv[3]
STATE_FILE = sys.argv[4]

STATE = {
    "gitlab_discussions": [],  # {"id": "d1", "notes": [{...}]}
    "github_comments": [],  # review (line) comments
    "github_reviews": [],
    "github_issue_comments": [],
    "log": [],  # mutating requests, in order
    "next_id": 1,
}


def save():
    with open(STATE_FILE, "w") as f:
        json.dump(STATE, f, indent=1)


def git(*args):
    return subprocess.run(["git", "-C", REPO] + list(args), check=True, capture_output=True, text=True).stdout


def changed_files():
    """[(status, path, patch-starting-at-first-@@)]"""
    out = []
    for line in git("diff", "--no-renames", "--name-status", BASE + "...HEAD").splitlines():
        status, path = line.split("\t", 1)
        diff = git("diff", "--no-renames", "--no-color", "-U3", BASE + "...HEAD", "--", path)
        idx = diff.find("\n@@")
        patch = diff[idx + 1:] if idx >= 0 else ""
        out.append((status, path, patch))
    return out


def nid():
    n = STATE["next_id"]
    STATE["next_id"] += 1
    return n


class H(BaseHTTPRequestHandler):
    def log_message(self, *a):
        pass

    def body(self):
        n = int(self.headers.get("Content-Length") or 0)
        raw = self.rfile.read(n) if n else b""
        if not raw:
            return {}
        ctype = self.headers.get("Content-Type", "")
        if "json" in ctype:
            return json.loads(raw)
        try:
            return json.loads(raw)
        except Exception:
            return dict(urllib.parse.parse_qsl(raw.decode()))

    def send(self, code, obj, headers=None):
        data = json.dumps(obj).encode()
        self.send_response(code)
        self.send_header("Content-Type", "application/json")
        self.send_header("Content-Length", str(len(data)))
        for k, v in (headers or {}).items():
            self.send_header(k, v)
        self.end_headers()
        self.wfile.write(data)
        save()

    def paginate(self, items, q):
        per = int(q.get("per_page", ["30"])[0])
        page = int(q.get("page", ["1"])[0])
        chunk = items[(page - 1) * per: page * per]
        headers = {}
        if page * per < len(items):
            u = "http://127.0.0.1:%d%s?page=%d&per_page=%d" % (PORT, self.path.split("?")[0], page + 1, per)
            headers["Link"] = '<%s>; rel="next"' % u
        return chunk, headers

    def do_GET(self):
        u = urllib.parse.urlparse(self.path)
        q = urllib.parse.parse_qs(u.query)
        p = u.path
        # ---- GitLab
        if p == "/api/v4/user":
            return self.send(200, {"id": 123, "username": "pint"})
        if p == "/api/v4/projects/1/merge_requests":
            return self.send(200, [{"iid": 1, "id": 1}])
        if p == "/api/v4/projects/1/merge_requests/1/versions":
            head = git("rev-parse", "HEAD").strip()
            base = git("merge-base", BASE, "HEAD").strip()
            return self.send(200, [{"id": 1, "head_commit_sha": head, "base_commit_sha": base, "start_commit_sha": base}])
        if p == "/api/v4/projects/1/merge_requests/1/diffs":
            return self.send(200, [
                {"old_path": path, "new_path": path, "diff": patch,
                 "new_file": st == "A", "deleted_file": st == "D", "renamed_file": False}
                for st, path, patch in changed_files()])
        if p == "/api/v4/projects/1/merge_requests/1/discussions":
            return self.send(200, STATE["gitlab_discussions"])
        # ---- GitHub
        if p == "/api/v3/repos/o/r/pulls/1/files":
            files = []
            for st, path, patch in changed_files():
                files.append({"filename": path, "patch": patch,
                              "status": {"A": "added", "D": "removed"}.get(st, "modified")})
            chunk, headers = self.paginate(files, q)
            return self.send(200, chunk, headers)
        if p == "/api/v3/repos/o/r/pulls/1/comments":
            chunk, headers = self.paginate(STATE["github_comments"], q)
            return self.send(200, chunk, headers)
        if p == "/api/v3/repos/o/r/pulls/1/reviews":
            chunk, headers = self.paginate(STATE["github_reviews"], q)
            return self.send(200, chunk, headers)
        return self.send(404, {"message": "not found " + p})

    def do_POST(self):
        p = urllib.parse.urlparse(self.path).path
        b = self.body()
        if p == "/api/v4/projects/1/merge_requests/1/discussions":
            pos = b.get("position")
            note = {"id": nid(), "system": False, "author": {"id": 123}, "body": b.get("body", "")}
            if pos:
                note["position"] = {
                    "base_sha": pos.get("base_sha"), "start_sha": pos.get("start_sha"), "head_sha": pos.get("head_sha"),
                    "old_path": pos.get("old_path"), "new_path": pos.get("new_path"), "position_type": "text",
                    "old_line": pos.get("old_line") or 0, "new_line": pos.get("new_line") or 0,
                }
            disc = {"id": "d%d" % note["id"], "individual_note": False, "notes": [note]}
            STATE["gitlab_discussions"].append(disc)
            STATE["log"].append({"op": "gitlab-create", "note": note["id"], "position": note.get("position"), "body": note["body"]})
            return self.send(201, disc)
        if p == "/api/v3/repos/o/r/pulls/1/comments":
            c = {"id": nid(), "path": b.get("path"), "body": b.get("body"), "line": b.get("line"),
                 "side": b.get("side"), "commit_id": b.get("commit_id")}
            STATE["github_comments"].append(c)
            STATE["log"].append({"op": "github-create", "comment": c})
            return self.send(201, c)
        if p == "/api/v3/repos/o/r/pulls/1/reviews":
            r = {"id": nid(), "body": b.get("body"), "commit_id": b.get("commit_id")}
            STATE["github_reviews"].append(r)
            return self.send(200, r)
        if p == "/api/v3/repos/o/r/issues/1/comments":
            c = {"id": nid(), "body": b.get("body")}
            STATE["github_issue_comments"].append(c)
            STATE["log"].append({"op": "github-general-comment", "body": c["body"]})
            return self.send(201, c)
        return self.send(404, {"message": "not found " + p})

    def do_PUT(self):
        p = urllib.parse.urlparse(self.path).path
        b = self.body()
        if p.startswith("/api/v3/repos/o/r/pulls/1/reviews/"):
            rid = int(p.rsplit("/", 1)[1])
            for r in STATE["github_reviews"]:
                if r["id"] == rid:
                    r["body"] = b.get("body")
                    return self.send(200, r)
        return self.send(404, {"message": "not found " + p})

    def do_DELETE(self):
        p = urllib.parse.urlparse(self.path).path
        pre = "/api/v4/projects/1/merge_requests/1/discussions/"
        if p.startswith(pre):
            did, _, noteid = p[len(pre):].split("/")
            for d in STATE["gitlab_discussions"]:
                if d["id"] == did:
                    d["notes"] = [n for n in d["notes"] if n["id"] != int(noteid)]
            STATE["gitlab_discussions"] = [d for d in STATE["gitlab_discussions"] if d["notes"]]
            STATE["log"].append({"op": "gitlab-delete", "note": int(noteid)})
            self.send_response(204)
            self.end_headers()
            save()
            return
        return self.send(404, {"message": "not found " + p})


save()
HTTPServer(("127.0.0.1", PORT), H).serve_forever()
