#!/bin/bash
# builds the binary (unless present) and runs every reproducer
cd "$(dirname "$0")/.." || exit 1
[ -x /tmp/pint-C17 ] || GOFLAGS=-mod=mod GOPROXY=off go build -tags stringlabels -o /tmp/pint-C17 ./cmd/pint || exit 1
for s in HUNT/repro*.sh; do
  echo "=================== $s"
  bash "$s"
done
