#!/bin/bash
# GitLab, maxComments=1, two problems of one check on the same lines -> ONE comment, which is created.
# Nothing is skipped, but the run still posts "would create 2 comment(s) ... 1 comment(s) were skipped".
source "$(dirname "$0")/lib.sh"
new_repo
cat > rules.yml <<'EOR'
groups:
- name: g
  rules:
  - alert: Ok
    expr: up == 0
EOR
commit base
git checkout -q -b feature
cat >> rules.yml <<'EOR'
  - alert: Foo
    expr: sum(up) == 0
    annotations:
      summary: "{{ $labels.job }} on {{ $labels.instance }} is down"
EOR
commit "add Foo"
start_forge
gitlab_cfg 1
run_ci
q '[(bool(n.get("position")), n["body"][:200]) for d in S["gitlab_discussions"] for n in d["notes"]]'
