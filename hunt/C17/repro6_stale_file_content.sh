#!/bin/bash
# makeComments() keeps `content` (the text of the file read for the previous group) across loop
# iterations and only refreshes it for problems anchored on the new file version. A problem
# anchored on a removed rule (rule/dependency, b.yml) that follows a problem of another file (a.yml)
# is therefore rendered with a snippet of a.yml. When the a.yml problem is fixed the text of the
# b.yml comment changes although the b.yml problem did not: the comment is deleted and created anew
# (GitLab) / a second comment for the same problem is added (GitHub, which cannot delete).
source "$(dirname "$0")/lib.sh"
new_repo
cat > a.yml <<'EOR'
groups:
- name: g
  rules:
  - alert: Ok
    expr: up == 0
  - alert: AlsoOk
    expr: up == 1
EOR
cat > b.yml <<'EOR'
groups:
- name: rec
  rules:
  - record: job:up:count
    expr: count(up) by (job)
  - record: job:up:sum
    expr: sum(up) by (job)
EOR
cat > c.yml <<'EOR'
groups:
- name: user
  rules:
  - alert: Down
    expr: job:up:sum == 0
EOR
commit base
git checkout -q -b feature
cat >> a.yml <<'EOR'
  - alert: Foo
    expr: sum(up) == 0
    annotations:
      summary: "{{ $labels.job }} is down"
EOR
sed -i '6,7d' b.yml
commit "add Foo to a.yml, remove job:up:sum from b.yml"
start_forge
gitlab_cfg 50
run_ci
echo "--- comment on b.yml after run 1 (the snippet shows line 6 of a.yml, not the removed rule of b.yml):"
q '"\n".join(n["body"] for d in S["gitlab_discussions"] for n in d["notes"] if n["position"]["new_path"]=="b.yml")' | sed -n '1,14p'
before=$(log_len)
run_ci
echo "--- requests of run 2, nothing changed (none expected, none made): $(q "[e['op'] for e in S['log'][$before:]]")"
# fix the a.yml problem only
sed -i 's/{{ \$labels.job }} is down/it is down/' a.yml
commit "fix Foo"
before=$(log_len)
run_ci
echo "--- requests of run 3 (the b.yml problem is unchanged):"
q "[(e['op'], (e.get('position') or {}).get('new_path')) for e in S['log'][$before:]]"
echo "--- comment on b.yml after run 3:"
q '"\n".join(n["body"] for d in S["gitlab_discussions"] for n in d["notes"] if n["position"]["new_path"]=="b.yml")' | sed -n '1,8p'
