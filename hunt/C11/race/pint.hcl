rule {
  label "severity" {
    required = true
    value = "page|warn"
    severity="bug"
  }
  label "team" {
    required = true
    comment = "A"
  }
  annotation "summary" {
    required = true
  }
  annotation "dashboard" {
    required = true
    severity = "warning"
  }
  aggregate ".+" {
    keep = ["job"]
  }
  aggregate ".+" {
    strip = ["instance"]
  }
  for {
    min = "1m"
    max="10m"
  }
  reject "http://.*" {
    label_values = true
    annotation_values = true
  }
}
rule {
  match {
    kind = "alerting"
  }
  name "Alert.*" { }
  label "team" {
    required = true
    value="a|b"
    comment = "B"
  }
  report {
    comment = "hello"
    severity="info"
  }
}
