#!/bin/bash
# F3: Report.isEqual compares r.Problem.Lines.Last with nr.Rule.Lines.Last (instead of
# nr.Problem.Lines.Last). Two byte-identical reports are folded only when the problem
# happens to end on the last line of the rule. Both alerts below get the very same two
# problems; the one with `labels` last is reported once, the other one twice.
cd "$(dirname "$0")"
PINT=${PINT:-/tmp/pint-C11}
$PINT --offline -n -c pint.hcl -w 1 lint --json out.json rules.yml >/dev/null 2>&1
python3 - <<'PY'
import json, collections
c = collections.Counter(r["lines"][0] for r in json.load(open("out.json")))
print("reports per line:", dict(c))
if c[6] != c[11]:
    print("VIOLATION: identical problems folded for the rule whose labels are last (line 11) but not for the other one (line 6)")
    raise SystemExit(1)
PY
