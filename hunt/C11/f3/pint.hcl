# Two label checks that produce byte-identical problems for `team: c`.
rule {
  label "team" {
    value = "a|b"
  }
}
rule {
  label "team" {
    value    = "a|b"
    required = true
  }
}
