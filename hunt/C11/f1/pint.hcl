rule {
  label "team" {
    required = true
    comment  = "AAA: every rule needs a team label"
  }
}
rule {
  label "team" {
    required = true
    value    = "a|b"
    comment  = "BBB: team must be a or b"
  }
}
