#!/bin/bash
# F1: two rule/label checks that differ only in their comment produce reports that
# Summary.Report treats as equal (isEqual ignores Problem.Details); whichever arrives
# first wins, so the JSON "details" value depends on scheduling.
cd "$(dirname "$0")"
PINT=${PINT:-/tmp/pint-C11}
$PINT --offline -n -c pint.hcl -w 1 lint --json base.json rules.yml >/dev/null 2>&1
echo "workers=1 : $(grep details base.json)"
for i in $(seq 1 300); do
  $PINT --offline -n -c pint.hcl -w 16 lint --json out.json rules.yml >/dev/null 2>&1
  if ! cmp -s base.json out.json; then
    echo "workers=16: $(grep details out.json)   (run $i)"
    echo "VIOLATION: JSON output differs between runs of the same input"
    diff base.json out.json
    exit 1
  fi
done
echo "no difference seen in 300 runs"
