#!/bin/bash
# F2: SortReports has no total order (Details / later diagnostics / rule are not part of the key),
# so reports that tie keep their arrival order: JSON order depends on scheduling.
cd "$(dirname "$0")"
PINT=${PINT:-/tmp/pint-C11}
$PINT --offline -n -c pint.hcl -w 1 lint --json base.json many.yml >/dev/null 2>&1
for i in $(seq 1 100); do
  $PINT --offline -n -c pint.hcl -w 16 lint --json out.json many.yml >/dev/null 2>&1
  if ! cmp -s base.json out.json; then
    echo "VIOLATION: JSON output of run $i with 16 workers differs from the 1 worker output:"
    diff base.json out.json | head -12
    exit 1
  fi
done
echo "no difference seen in 100 runs"
