rule {
  label "team" {
    value   = "a|b"
    comment = "AAA"
  }
}
rule {
  label "team" {
    value    = "a|b"
    required = true
    comment  = "BBB"
  }
}
