#!/usr/bin/env python3
# Minimal deterministic Prometheus API mock. usage: mockprom.py PORT
import sys, json, time, urllib.parse
from http.server import BaseHTTPRequestHandler, ThreadingHTTPServer

class H(BaseHTTPRequestHandler):
    protocol_version = "HTTP/1.1"
    def log_message(self, *a): pass
    def _send(self, code, obj):
        b = json.dumps(obj).encode()
        self.send_response(code)
        self.send_header("Content-Type", "application/json")
        self.send_header("Content-Length", str(len(b)))
        self.end_headers()
        self.wfile.write(b)
    def do_GET(self): self.handle_any()
    def do_POST(self): self.handle_any()
    def handle_any(self):
        u = urllib.parse.urlparse(self.path)
        q = urllib.parse.parse_qs(u.query)
        n = int(self.headers.get("Content-Length") or 0)
        if n:
            q.update(urllib.parse.parse_qs(self.rfile.read(n).decode()))
        p = u.path
        if p == "/api/v1/status/config":
            return self._send(200, {"status":"success","data":{"yaml":"global:\n  scrape_interval: 1m\n  external_labels:\n    cluster: c1\n"}})
        if p == "/api/v1/status/flags":
            return self._send(200, {"status":"success","data":{"storage.tsdb.retention.time":"15d"}})
        if p == "/api/v1/status/buildinfo":
            return self._send(200, {"status":"success","data":{"version":"2.50.0"}})
        if p == "/api/v1/metadata":
            m = q.get("metric", ["x"])[0]
            return self._send(200, {"status":"success","data":{m:[{"type":"gauge","help":"h","unit":""}]}})
        if p == "/api/v1/query":
            query = q.get("query", [""])[0]
            if query.startswith("count("):
                res = [{"metric":{}, "value":[time.time(), "1"]}]
            else:
                res = []
            return self._send(200, {"status":"success","data":{"resultType":"vector","result":res}})
        if p == "/api/v1/query_range":
            query = q.get("query", [""])[0]
            start = float(q["start"][0]); end = float(q["end"][0]); step = float(q["step"][0])
            vals = []
            t = start
            while t <= end:
                vals.append([t, "1"]); t += step
            if "up" in query and "absent" not in query:
                res = [{"metric":{"__name__":"up","job":"a","instance":"i"}, "values": vals}]
            else:
                res = []
            return self._send(200, {"status":"success","data":{"resultType":"matrix","result":res}})
        return self._send(404, {"status":"error","errorType":"not_found","error":"nope"})

ThreadingHTTPServer(("127.0.0.1", int(sys.argv[1])), H).serve_forever()
