prometheus "p1" {
  uri = "http://127.0.0.1:19511"
  timeout = "30s"
}
prometheus "p2" {
  uri = "http://127.0.0.1:19512"
  timeout = "30s"
}
rule {
  cost {}
  alerts {
    range = "1h"
    step = "1m"
    resolve = "5m"
  }
}
