rule {
  label "team" {
    required = true
  }
}
