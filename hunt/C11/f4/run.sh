#!/bin/bash
# F4: two different rules written on one line (flow style YAML / single line JSON) have the
# same Rule.Lines, so Rule.IsSame + Report.isEqual treat "team label is required" on rule
# `foo` and on rule `bar` as one report. One of them is dropped, and which one survives
# (rule name and caret position in the console output) depends on worker scheduling.
cd "$(dirname "$0")"
PINT=${PINT:-/tmp/pint-C11}
rc=0
$PINT --offline -n -c pint.hcl -w 1 lint rules.yml > base.txt 2>&1
n=$(grep -c -- '--->' base.txt)
echo "rules=2, reports with 1 worker: $n"
grep -A2 -- '--->' base.txt
if [ "$n" != 2 ]; then echo "VIOLATION: the report for one of the two rules is missing"; rc=1; fi
for i in $(seq 1 300); do
  $PINT --offline -n -c pint.hcl -w 16 lint rules.yml > out.txt 2>&1
  if ! diff <(grep -v '^level=' base.txt) <(grep -v '^level=' out.txt) >/dev/null; then
    echo "VIOLATION: console output of run $i with 16 workers differs:"
    grep -A2 -- '--->' out.txt
    exit 1
  fi
done
exit $rc
