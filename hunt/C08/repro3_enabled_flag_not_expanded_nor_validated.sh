#!/bin/sh
# --disabled accepts regexps over check names and instance names, --enabled accepts neither and
# validates nothing: a pattern, an instance name or a typo silently turns every check off (exit 0).
set -u
D=$(mktemp -d); cd "$D"; . /tmp/hunt-C08/HUNT/lib.sh
cat > rules.yml <<'EOR'
groups:
- name: g
  rules:
  - alert: Foo
    expr: up == 0
    for: 1m
EOR
cat > pint.hcl <<'EOC'
rule {
  for {
    min = "5m"
  }
  name "xxx" {}
}
EOC
echo "### baseline"; pint_json -c pint.hcl lint --json out.json rules.yml
echo "### --disabled 'rule/.*'  (pattern is expanded: both rule/* reporters are gone)"; pint_json -c pint.hcl -d 'rule/.*' lint --json out.json rules.yml
echo "### --enabled 'rule/.*'   (expected: rule/for + rule/name; observed: nothing, exit 0)"; pint_json -c pint.hcl -e 'rule/.*' lint --json out.json rules.yml
echo "### --enabled rule/fro    (typo; expected: an error like the config file gives; observed: nothing, exit 0)"; pint_json -c pint.hcl -e 'rule/fro' lint --json out.json rules.yml
printf 'checks {\n  enabled = ["rule/fro"]\n}\n' > typo.hcl
echo "### same typo in checks { enabled } of the config file:"; "$PINT" -n -c typo.hcl lint rules.yml 2>&1 | tail -1
