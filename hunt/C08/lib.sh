# helper: run pint (binary /tmp/pint-C08, build with:
#   cd /tmp/hunt-C08 && GOFLAGS=-mod=mod GOPROXY=off go build -tags stringlabels -o /tmp/pint-C08 ./cmd/pint)
# usage: pint_json <args...>  -> prints "reporter path lines problem" per reported problem
PINT=${PINT:-/tmp/pint-C08}
pint_json() {
  rm -f out.json
  "$PINT" -n "$@" >/dev/null 2>err.txt
  echo "exit=$?"
  python3 -c "
import json,os
if os.path.exists('out.json'):
    for p in json.load(open('out.json')): print('  ', p['reporter'], p.get('path'), p.get('lines'), p.get('problem'))
" | sort
}
