#!/bin/sh
# --offline / --disabled N must leave no problem whose reporter is an online check / N.
# A `rule { enable = [N] }` block re-enables N, so pint talks to Prometheus in offline mode.
set -u
D=$(mktemp -d); cd "$D"; . /tmp/hunt-C08/HUNT/lib.sh
cat > rules.yml <<'EOR'
groups:
- name: g
  rules:
  - record: foo:sum
    expr: sum(foo)
EOR
cat > pint.hcl <<'EOC'
prometheus "prom" {
  uri     = "http://127.0.0.1:1"
  timeout = "1s"
}
rule {
  enable = ["promql/series"]
}
EOC
echo "### --offline (expected: no promql/series problem, no HTTP request)"
pint_json -c pint.hcl --offline lint --json out.json rules.yml
grep -c 'Query returned an error' err.txt | sed 's/^/   HTTP requests attempted in offline mode: /'
grep -m1 'Query returned an error' err.txt
echo "### --disabled promql/series (expected: no promql/series problem)"
pint_json -c pint.hcl -d promql/series -d 'alerts/.*' -d 'labels/conflict' -d 'promql/(rate|range_query|vector_matching|counter)' lint --json out.json rules.yml
