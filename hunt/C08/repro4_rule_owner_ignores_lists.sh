#!/bin/sh
# Problems reported as rule/owner by --require-owner ignore --enabled and --disabled,
# and the name is rejected in the configuration file.
set -u
D=$(mktemp -d); cd "$D"; . /tmp/hunt-C08/HUNT/lib.sh
cat > rules.yml <<'EOR'
groups:
- name: g
  rules:
  - record: foo:sum
    expr: sum(foo)
EOR
: > empty.hcl
echo "### --enabled promql/syntax (expected: only promql/syntax + parse errors, i.e. nothing)"
pint_json -c empty.hcl -e promql/syntax lint --require-owner --json out.json rules.yml
echo "### --disabled rule/owner (accepted silently; expected: no rule/owner problem)"
pint_json -c empty.hcl -d rule/owner lint --require-owner --json out.json rules.yml
printf 'checks {\n  disabled = ["rule/owner"]\n}\n' > ro.hcl
echo "### checks { disabled = [\"rule/owner\"] }:"; "$PINT" -n -c ro.hcl lint --require-owner rules.yml 2>&1 | tail -1
