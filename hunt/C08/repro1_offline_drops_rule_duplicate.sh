#!/bin/sh
# --offline must behave like disabling the online checks by name; rule/duplicate is an offline check
# and must survive. With Prometheus servers coming from filepath discovery it disappears.
set -u
D=$(mktemp -d); cd "$D"; . /tmp/hunt-C08/HUNT/lib.sh
mkdir rules
for f in a b; do cat > rules/$f.yml <<'EOR'
groups:
- name: g
  rules:
  - record: foo:sum
    expr: sum(foo)
EOR
done
cat > pint.hcl <<'EOC'
discovery {
  filepath {
    directory = "rules"
    match     = "(?P<name>a).yml"
    template {
      name = "prom-{{ $name }}"
      uri  = "http://127.0.0.1:1"
    }
  }
}
EOC
ONLINE="alerts/absent,alerts/count,alerts/external_labels,labels/conflict,promql/range_query,promql/rate,promql/vector_matching,query/cost,promql/counter,promql/series,rule/link"
echo "### --disabled <every online check>  (expected: 2 x rule/duplicate)"
pint_json -c pint.hcl -d "$ONLINE" lint --json out.json rules
echo "### --offline  (expected: identical to the above; observed: nothing)"
pint_json -c pint.hcl --offline lint --json out.json rules
