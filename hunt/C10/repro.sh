#!/bin/bash
# Reproducers for property C10 (text excluded by ignore comments cannot influence the result).
# Usage: HUNT/repro.sh   (builds /tmp/pint-C10 if missing). Each case lints a pair of files that differ ONLY in
# excluded text (same number of lines); the property requires identical output (modulo the file name).
set -u
cd "$(dirname "$0")/.."
export GOFLAGS=-mod=mod GOPROXY=off
[ -x /tmp/pint-C10 ] || go build -tags stringlabels -o /tmp/pint-C10 ./cmd/pint
W=$(mktemp -d /tmp/hunt-C10-work.XXXXXX)
cd "$W"
cat > pint.hcl <<'EOF'
parser { relaxed = [".*"] }
rule {
  aggregate ".+" {
    keep = ["job"]
  }
}
EOF
lint() { /tmp/pint-C10 --no-color -l error -c pint.hcl lint "$1" 2>&1 | grep -v conda | sed "s/$1/FILE/g"; }
cmp2() { # title fileA fileB
  local a b; a=$(lint "$2"); b=$(lint "$3")
  echo "=================== $1"
  if [ "$a" == "$b" ]; then echo "SAME (property holds)"; else echo "DIFFERENT (property violated)"; echo "--- $2:"; echo "$a"; echo "--- $3:"; echo "$b"; fi
}

# 1. ignore/next-line inside ignore/begin..ignore/end ends the block after one line
printf -- '- record: foo\n  expr: sum(up)\n# pint ignore/begin\n# just a comment\n{{ junk }}\n{{ more: [junk }}\n# pint ignore/end\n- record: bar\n  expr: sum(up)\n' > f1a.yml
printf -- '- record: foo\n  expr: sum(up)\n# pint ignore/begin\n# pint ignore/next-line\n{{ junk }}\n{{ more: [junk }}\n# pint ignore/end\n- record: bar\n  expr: sum(up)\n' > f1b.yml
cmp2 "1. ignore/next-line inside begin/end" f1a.yml f1b.yml

# 2. ignore/file inside an excluded block excludes the whole file
printf -- '- record: foo\n  expr: sum(up)\n# pint ignore/begin\n# some text\n# pint ignore/end\n- record: bar\n  expr: sum(up)\n' > f2a.yml
printf -- '- record: foo\n  expr: sum(up)\n# pint ignore/begin\n# pint ignore/file\n# pint ignore/end\n- record: bar\n  expr: sum(up)\n' > f2b.yml
cmp2 "2. ignore/file inside begin/end" f2a.yml f2b.yml
printf -- '- record: foo\n  expr: sum(up)\n# pint ignore/next-line\n# some text\n- record: bar\n  expr: sum(up)\n' > f2c.yml
printf -- '- record: foo\n  expr: sum(up)\n# pint ignore/next-line\n# pint ignore/file\n- record: bar\n  expr: sum(up)\n' > f2d.yml
cmp2 "2b. ignore/file on a line excluded by ignore/next-line" f2c.yml f2d.yml

# 3. an excluded line that carries an ignore comment itself is not blanked
printf -- '- record: foo\n  expr: sum(up)\n# pint ignore/begin\n{{ junk: [ }} # plain comment\n# pint ignore/end\n- record: bar\n  expr: sum(up)\n' > f3a.yml
printf -- '- record: foo\n  expr: sum(up)\n# pint ignore/begin\n{{ junk: [ }} # pint ignore/begin\n# pint ignore/end\n- record: bar\n  expr: sum(up)\n' > f3b.yml
cmp2 "3. excluded line with its own ignore/begin is not blanked" f3a.yml f3b.yml
printf -- '- record: foo\n  expr: sum(up)\n# pint ignore/next-line\n{{ junk: [ }} # plain comment\n\n- record: bar\n  expr: sum(up)\n' > f3c.yml
printf -- '- record: foo\n  expr: sum(up)\n# pint ignore/next-line\n{{ junk: [ }} # pint ignore/next-line\n\n- record: bar\n  expr: sum(up)\n' > f3d.yml
cmp2 "3b. excluded line with its own ignore/next-line is not blanked" f3c.yml f3d.yml

# 4. file-level control comments inside excluded text are collected
printf -- '- record: foo\n  expr: sum(up)\n# pint ignore/begin\n# some text in a template\n# pint ignore/end\n' > f4a.yml
printf -- '- record: foo\n  expr: sum(up)\n# pint ignore/begin\n# pint file/disable promql/aggregate\n# pint ignore/end\n' > f4b.yml
cmp2 "4. file/disable inside begin/end" f4a.yml f4b.yml
printf -- '- record: foo\n  expr: sum(up)\n# pint ignore/begin\n# pint file/snooze bogus\n# pint ignore/end\n' > f4c.yml
cmp2 "4b. invalid control comment inside begin/end is reported" f4a.yml f4c.yml
printf -- '- record: foo\n  expr: sum(up)\n# pint ignore/next-line\n{{ x }} # some text\n' > f4d.yml
printf -- '- record: foo\n  expr: sum(up)\n# pint ignore/next-line\n{{ x }} # pint file/disable promql/aggregate\n' > f4e.yml
cmp2 "4c. file/disable on a line excluded by ignore/next-line" f4d.yml f4e.yml

# 5. rule-level control comment on a line excluded by ignore/next-line is attached to the neighbouring rule
printf -- '- record: foo\n  expr: sum(up)\n  # pint ignore/next-line\n  {{ junk }} # some text\n- record: bar\n  expr: sum(up)\n' > f5a.yml
printf -- '- record: foo\n  expr: sum(up)\n  # pint ignore/next-line\n  {{ junk }} # pint disable promql/aggregate\n- record: bar\n  expr: sum(up)\n' > f5b.yml
cmp2 "5. '# pint disable' on a next-line-excluded line disables the check for rule foo" f5a.yml f5b.yml

# 6. ignore/line right after a literal block scalar: the result depends on the LENGTH of the excluded text
printf -- 'groups:\n- name: g\n  rules:\n  - record: foo\n    expr: |\n      sum(up)\nxx # pint ignore/line\n  - record: bar\n    expr: sum(up)\n' > f6a.yml
printf -- 'groups:\n- name: g\n  rules:\n  - record: foo\n    expr: |\n      sum(up)\n{{ if .Values.x }} # pint ignore/line\n  - record: bar\n    expr: sum(up)\n' > f6b.yml
cmp2 "6. ignore/line after block scalar, short vs long excluded text" f6a.yml f6b.yml

# 7. ignore/file on the last line without a trailing newline: the column range is one short
printf -- '- record: foo\n  expr: sum(up)\n# pint ignore/file\n' > f7a.yml
printf -- '- record: foo\n  expr: sum(up)\n# pint ignore/file' > f7b.yml
echo "=================== 7. ignore/file with / without trailing newline (carets must cover the same 18 columns)"; /tmp/pint-C10 --no-color -l error -c pint.hcl lint --min-severity=info f7a.yml; /tmp/pint-C10 --no-color -l error -c pint.hcl lint --min-severity=info f7b.yml 2>&1 | grep -v conda
