#!/bin/bash
# pint ci: match{} without `state` must default to added/modified/renamed, but the enable/disable lists of a rule block
# are evaluated with the raw match blocks (no state default), so they also hit unmodified rules.
. "$(dirname "$0")/common.sh"
git init -q -b main . && git config user.email a@b.c && git config user.name t
cat > rules/a.yml <<'YML'
groups:
- name: g
  rules:
  - alert: Old
    expr: up == 0
YML
cat > .pint.hcl <<'HCL'
ci { baseBranch = "main" }
rule {
  match { state = ["any"] }
  report {
    comment  = "MATCHED"
    severity = "warning"
  }
}
rule {
  # no state: in `pint ci` this block only selects added/modified/renamed rules
  match { kind = "alerting" }
  disable = ["rule/report"]
}
HCL
git add . && git commit -qm init && git checkout -qb feat
cat >> rules/a.yml <<'YML'
  - alert: New
    expr: up == 0
YML
git commit -qam new
echo "### control: same config without the second block"
awk 'BEGIN{n=0} /^rule \{/{n++} n<2{print}' .pint.hcl > "$WORK.control.hcl"
run -c "$WORK.control.hcl" ci --show-duplicates | grep -- '--->'
echo "### with the second block"
rm -f "$WORK.control.hcl"
OUT=$(run ci --show-duplicates 2>&1); echo "$OUT"
echo "expected: rule/report still reported for the unmodified rule Old (block 2 does not select it), not for New"
echo "$OUT" | grep -q '`Old`' || { echo "DEFECT: rule/report was disabled for the unmodified rule Old by a block whose default state excludes it"; exit 1; }
