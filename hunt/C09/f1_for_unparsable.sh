#!/bin/bash
# match { for = "OP DUR" } is treated as satisfied when the rule's `for` value cannot be parsed.
. "$(dirname "$0")/common.sh"
cat > rules/a.yml <<'YML'
groups:
- name: g
  rules:
  - alert: BadFor
    expr: up == 0
    for: abc
  - alert: NullFor
    expr: up == 0
    for:
  - alert: BadKeep
    expr: up == 0
    keep_firing_for: xyz
  - alert: Short
    expr: up == 0
    for: 1m
    keep_firing_for: 1m
YML
cat > gt.hcl <<'HCL'
rule {
  match { for = "> 5m" }
  report {
    comment  = "FOR-GT-5m"
    severity = "warning"
  }
}
rule {
  match { keep_firing_for = "> 5m" }
  name "must-not-be-this" {
    comment  = "KEEP-GT-5m"
    severity = "warning"
  }
}
HCL
cat > lt.hcl <<'HCL'
rule {
  match { for = "< 5m" }
  report {
    comment  = "FOR-LT-5m"
    severity = "warning"
  }
}
HCL
echo "### for > 5m / keep_firing_for > 5m (no rule has a parsable value above 5m: expected no FOR-GT-5m / rule/name problems at all)"
OUT1=$(run -c gt.hcl lint --show-duplicates rules); echo "$OUT1" | grep -B3 -A0 'FOR-GT-5m\|rule/name' | grep -- '--->\|FOR-GT\|rule/name'
echo "### for < 5m (expected only Short)"
OUT2=$(run -c lt.hcl lint --show-duplicates rules); echo "$OUT2" | grep -- '---> .*`'
bad=0
echo "$OUT1" | grep -A1 'rule/report' | grep -q 'BadFor'  && { echo "DEFECT: BadFor (for: abc) matched for > 5m"; bad=1; }
echo "$OUT2" | grep -A1 'rule/report' | grep -q 'BadFor'  && { echo "DEFECT: BadFor (for: abc) ALSO matched for < 5m"; bad=1; }
echo "$OUT1" | grep -A1 'rule/report' | grep -q 'NullFor' && { echo "DEFECT: NullFor (for: null) matched for > 5m"; bad=1; }
echo "$OUT1" | grep -A1 'rule/name'   | grep -q 'BadKeep' && { echo "DEFECT: BadKeep (keep_firing_for: xyz) matched keep_firing_for > 5m"; bad=1; }
exit $bad
