#!/bin/bash
# (a) ignore { state = [] } has no condition at all but passes the "at least one condition" validation and ignores everything.
# (b) command = "<typo>" is accepted although kind/state values are validated; the block then never matches.
. "$(dirname "$0")/common.sh"
cat > rules/a.yml <<'YML'
groups:
- name: g
  rules:
  - alert: A
    expr: up == 0
YML
cat > empty.hcl <<'HCL'
rule {
  ignore {}
  report {
    comment  = "MATCHED"
    severity = "warning"
  }
}
HCL
cat > a.hcl <<'HCL'
rule {
  ignore { state = [] }
  report {
    comment  = "MATCHED"
    severity = "warning"
  }
}
HCL
cat > b.hcl <<'HCL'
rule {
  ignore { command = "lnit" }
  ignore { command = "CI" }
  report {
    comment  = "MATCHED"
    severity = "warning"
  }
}
HCL
bad=0
echo "### ignore {} (reference: rejected)"; "$PINT" --no-color --offline -c empty.hcl lint rules 2>&1 | grep -v '^$' | tail -1
echo "### ignore { state = [] }"; OUT=$("$PINT" --no-color --offline -c a.hcl lint rules 2>&1 | grep -v '^$'); echo "$OUT"
echo "$OUT" | grep -q 'at least one condition' || { echo "DEFECT: accepted; the rule block is now ignored for every rule (no MATCHED above)"; bad=1; }
echo "### ignore { command = \"lnit\" }"; OUT=$("$PINT" --no-color --offline -c b.hcl lint rules 2>&1 | grep -v '^$'); echo "$OUT"
echo "$OUT" | grep -qi 'unknown\|invalid' || { echo "DEFECT: unknown command values accepted without any error"; bad=1; }
exit $bad
