#!/bin/bash
# One rule{} block with two aggregate blocks for different rule names but the same label: only the first one is applied.
. "$(dirname "$0")/common.sh"
cat > rules/a.yml <<'YML'
groups:
- name: g
  rules:
  - record: foo:up
    expr: sum(up) without(job)
  - record: bar:up
    expr: sum(up) without(job)
YML
cat > pint.hcl <<'HCL'
rule {
  aggregate "foo:.+" {
    keep = ["job"]
  }
  aggregate "bar:.+" {
    keep = ["job"]
  }
}
HCL
OUT=$(run -c pint.hcl lint rules); echo "$OUT"
echo "$OUT" | grep -q '`foo:up`' || { echo "UNEXPECTED: foo:up not reported"; exit 2; }
echo "$OUT" | grep -q '`bar:up`' || { echo "DEFECT: bar:up strips the job label but the second aggregate check was never applied"; exit 1; }
