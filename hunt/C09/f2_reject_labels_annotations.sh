#!/bin/bash
# One rule{} block with reject { label_values = true; annotation_values = true }: only the label half is applied.
. "$(dirname "$0")/common.sh"
cat > rules/a.yml <<'YML'
groups:
- name: g
  rules:
  - alert: A
    expr: up == 0
    labels:
      team: bad
    annotations:
      summary: bad
YML
cat > pint.hcl <<'HCL'
rule {
  reject "bad" {
    label_values      = true
    annotation_values = true
  }
}
HCL
OUT=$(run -c pint.hcl lint rules); echo "$OUT"
n=$(echo "$OUT" | grep -c 'rule/reject')
echo "rule/reject problems: $n (expected 2: label team=bad on line 7 and annotation summary=bad on line 9)"
[ "$n" = 2 ] || { echo "DEFECT: the annotation_values check of the matching rule block was not applied"; exit 1; }
