#!/bin/bash
# Two rule{} blocks that both match the rule and define differently configured checks of the same type:
# the checks of the second block are silently not applied.
. "$(dirname "$0")/common.sh"
cat > rules/a.yml <<'YML'
groups:
- name: g
  rules:
  - alert: A
    expr: up == 0
    labels:
      team: bad
YML
cat > report.hcl <<'HCL'
rule {
  match { kind = "alerting" }
  report {
    comment  = "FIRST"
    severity = "warning"
  }
}
rule {
  match { name = "A" }
  report {
    comment  = "SECOND"
    severity = "bug"
  }
}
HCL
cat > label.hcl <<'HCL'
rule {
  match { kind = "alerting" }
  label "team" {
    values   = ["bad", "good"]
    required = true
  }
}
rule {
  match { name = "A" }
  label "team" {
    values   = ["good"]
    required = true
    severity = "bug"
  }
}
HCL
bad=0
echo "### two report blocks"
OUT=$(run -c report.hcl lint --show-duplicates rules); echo "$OUT"
echo "$OUT" | grep -q SECOND || { echo "DEFECT: block 2 matches (name = A) but its report check was not applied"; bad=1; }
echo "### two label blocks (team=bad is allowed by block 1, not allowed by block 2)"
OUT=$(run -c label.hcl lint --show-duplicates rules); echo "$OUT"
echo "$OUT" | grep -q 'rule/label' || { echo "DEFECT: block 2 matches but its label check (values=[good]) was not applied: no problem reported for team=bad"; bad=1; }
exit $bad
