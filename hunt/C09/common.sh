# sourced by the reproducers
set -u
export GOFLAGS=-mod=mod GOPROXY=off
ROOT="$(cd "$(dirname "${BASH_SOURCE[0]}")/.." && pwd)"
PINT="${PINT:-/tmp/pint-fixed}"
if [ ! -x "$PINT" ]; then
  (cd "$ROOT" && go build -tags stringlabels -o "$PINT" ./cmd/pint) || exit 2
fi
WORK="$(mktemp -d /tmp/hunt-C09-repro.XXXXXX)"
trap 'rm -rf "$WORK"' EXIT
cd "$WORK"
mkdir rules
run() { "$PINT" --no-color --offline "$@" 2>&1 | grep -v '^$' | grep -v 'level=INFO'; }
