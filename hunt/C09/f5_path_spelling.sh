#!/bin/bash
# match { path = "rules/.*" }: whether the same file matches depends on how the argument was spelled on the command line.
. "$(dirname "$0")/common.sh"
cat > rules/a.yml <<'YML'
groups:
- name: g
  rules:
  - alert: A
    expr: up == 0
YML
cat > pint.hcl <<'HCL'
rule {
  match { path = "rules/.*" }
  report {
    comment  = "MATCHED"
    severity = "warning"
  }
}
HCL
bad=0
for p in rules ./rules 'rules/*.yml' './rules/*.yml' rules/a.yml ./rules/a.yml; do
  n=$(run -c pint.hcl lint "$p" | grep -c MATCHED)
  echo "pint lint $p -> MATCHED x$n"
  [ "$n" = 1 ] || bad=1
done
[ $bad = 0 ] || echo "DEFECT: ./rules/a.yml is the same relative file as ./rules/*.yml and ./rules, but only there the path condition sees './rules/a.yml'"
exit $bad
