#!/bin/sh
# Builds pint from the unchanged tree and lints HUNT/rules.yml with only promql/impossible enabled.
# Every rule in rules.yml gets a "dead code in query" warning although Prometheus returns series
# for the flagged operation (see hunt_c12_test.go.txt for the engine side).
set -e
cd "$(dirname "$0")/.."
export GOFLAGS=-mod=mod GOPROXY=off
go build -tags stringlabels -o /tmp/pint-C12 ./cmd/pint
/tmp/pint-C12 --no-color --offline --show-duplicates lint --enabled promql/impossible HUNT/rules.yml 2>&1 || true
