#!/bin/sh
# Reproducers for the C04 hunt. Run from the root of the worktree: sh HUNT/repro.sh
# Builds pint, runs it on small rule files, then runs the engine harness (ground truth = real PromQL engine).
set -u
export GOFLAGS=-mod=mod GOPROXY=off
ROOT=$(cd "$(dirname "$0")/.." && pwd)
BIN=${BIN:-/tmp/pint-C04}
W=$(mktemp -d)
cd "$ROOT" || exit 1
go build -tags stringlabels -o "$BIN" ./cmd/pint || exit 1
: > "$W/pint.hcl"

mk() { # mk <file> <expr> <template>
	printf 'groups:\n- name: g\n  rules:\n  - alert: A\n    expr: %s\n    annotations:\n      summary: "%s"\n' "$2" "$3" > "$W/$1.yml"
}
run() {
	echo "=================== $1: $(grep 'expr:' "$W/$1.yml")"
	(cd "$W" && "$BIN" -n --offline -c pint.hcl lint "$1.yml" 2>&1 | grep -v 'level=INFO' | head -${2:-25})
}

# F1: false positive, the result of count_values(..."__name__"...) does carry __name__
mk f1 'count_values by (job) ("__name__", foo) > 0' '{{ $labels.__name__ }} on {{ $labels.job }}'
run f1
# F2: crash on a parenthesised string argument (valid PromQL, the engine evaluates it)
mk f2a 'label_replace(foo, ("dst"), "x", "src", "(.*)") > 0' '{{ $labels.dst }}'
run f2a 6
mk f2b 'count_values(("v"), foo) > 0' '{{ $labels.v }}'
run f2b 6
mk f2c 'label_join(foo, ("dst"), "-", "a", "b") > 0' '{{ $labels.dst }}'
run f2c 6
# F3: the right side of `or` is declared dead although Prometheus returns its series
mk f3 'vector(0) or foo{job="x"}' 'x'
run f3
# F4: a comparison with `bool` never filters, it is declared dead
mk f4 'vector(1) == bool 2' 'x'
run f4
# F5: the constant of vector(N) survives functions and aggregations that change the value
mk f5a 'count(vector(0)) == 1' 'x'
run f5a
mk f5b 'timestamp(vector(0)) > 0' 'x'
run f5b
# F6: `and` keeps AlwaysReturns: the whole alert is declared dead and the missing label is NOT reported
mk f6 'sum(foo) unless on() (vector(1) and on() maintenance)' '{{ $labels.job }}'
run f6
echo "--- compare: same query without the guard reports the label"
mk f6ok 'sum(foo)' '{{ $labels.job }}'
run f6ok

echo "=================== engine ground truth (every case below is a FAIL line = a violation)"
cp "$ROOT/HUNT/engine_harness_test.go.txt" "$ROOT/internal/parser/utils/engine_harness_test.go"
go test -tags stringlabels ./internal/parser/utils/ -run 'TestHuntFindings' -v 2>&1 | grep -v '^WARNING'
rm -f "$ROOT/internal/parser/utils/engine_harness_test.go"
rm -rf "$W"
