#!/bin/bash
# usage: probe.sh 'expr' label1 label2...
expr="$1"; shift
d=$(mktemp -d /tmp/c04-probe.XXXX)
{
echo "groups:"
echo "- name: g"
echo "  rules:"
echo "  - alert: A"
echo "    expr: |"
echo "      $expr"
echo "    annotations:"
for l in "$@"; do echo "      s_$l: '{{ \$labels.$l }}'"; done
} > $d/rules.yml
cat > $d/pint.hcl <<EOC
checks { enabled = ["alerts/template","promql/impossible"] }
EOC
/tmp/pint-C04 --no-color -c $d/pint.hcl lint $d/rules.yml 2>&1 | grep -v '^level=info'
