#!/bin/bash
# F1: FindPosition highlights the first textual match inside the whole node, not the modifier of the node itself.
cd "$(dirname "$0")"
echo "--- outer on(job) is blamed, but the caret is under the inner on(instance)"
./probe.sh '(foo * on(instance) group_left bar) + on(job) baz' instance
echo "--- outer without(b) is blamed, but the caret is under the inner without(a)"
./probe.sh 'sum(sum without(a)(foo)) without(b)' b
echo "--- caret lands inside a string literal of a matcher"
./probe.sh 'foo{x="on ("} + on(job) bar' x
