#!/bin/bash
# F2: `unless on()` marks the left side dead because AlwaysReturns survives vector-vector joins / set operators / sample-dropping functions.
cd "$(dirname "$0")"
./probe.sh 'foo unless on() (vector(1) and on() bar)' job
./probe.sh 'foo unless on() (vector(1) * on() bar)' job
./probe.sh 'foo unless on() histogram_count(vector(1))' job
