#!/bin/bash
# F3: a variable assigned from an expression that merely mentions $labels.x is treated as an alias of $labels.
d=$(mktemp -d /tmp/c04-alias.XXXX)
cat > $d/rules.yml <<'EOR'
groups:
- name: g
  rules:
  - alert: A
    expr: sum by(instance)(foo) > 0
    annotations:
      summary: '{{ $a := args $labels.instance $value }}{{ $a.arg0 }} is {{ $a.arg1 }}'
EOR
echo 'checks { enabled = ["alerts/template"] }' > $d/pint.hcl
/tmp/pint-C04 --no-color -c $d/pint.hcl lint $d/rules.yml 2>&1 | grep -v 'level=INFO'
