#!/bin/bash
# Finding 4: checks built from one rule block are deduplicated by String(), which leaves out settings:
#  - reject with label_keys and annotation_keys: the annotation check is dropped (this is an example from docs/checks/rule/reject.md)
#  - two aggregate blocks with different name patterns and the same label: the second is dropped
. "$(dirname "$0")/common.sh"
cd "$W"
cat > rej.yml <<'EOR'
groups:
- name: g
  rules:
  - alert: Foo
    expr: up == 0
    labels:
      ok: x
    annotations:
      bad_key: x
EOR
cat > rej_both.hcl <<'EOC'
rule {
  reject "bad.*" {
    label_keys      = true
    annotation_keys = true
  }
}
EOC
cat > rej_one.hcl <<'EOC'
rule {
  reject "bad.*" {
    annotation_keys = true
  }
}
EOC
cat > agg.yml <<'EOR'
groups:
- name: g
  rules:
  - record: bar:sum
    expr: sum(up) without(job)
EOR
cat > agg_both.hcl <<'EOC'
rule {
  aggregate "foo:.*" { keep = ["job"] }
  aggregate "bar:.*" { keep = ["job"] }
}
EOC
cat > agg_one.hcl <<'EOC'
rule {
  aggregate "bar:.*" { keep = ["job"] }
}
EOC
n() { "$PINT" -n --offline -c "$1" lint "$2" 2>&1 | grep -c "($3)"; }
a=$(n rej_one.hcl rej.yml rule/reject);  b=$(n rej_both.hcl rej.yml rule/reject)
c=$(n agg_one.hcl agg.yml promql/aggregate); d=$(n agg_both.hcl agg.yml promql/aggregate)
echo "reject annotation_keys only: $a report(s); label_keys + annotation_keys: $b report(s)"
echo "aggregate bar only: $c report(s); aggregate foo + bar: $d report(s)"
if [ "$a" != "$b" ] || [ "$c" != "$d" ]; then echo "VIOLATION: adding a setting removes a report"; exit 1; fi
exit 0
