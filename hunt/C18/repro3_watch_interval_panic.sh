#!/bin/bash
# Finding 3: pint watch --interval=0s (or a negative one) is accepted and panics one second later in Ticker.Reset.
. "$(dirname "$0")/common.sh"
cat > "$W/rules.yml" <<'EOR'
groups:
- name: g
  rules:
  - record: foo
    expr: up
EOR
cd "$W"
timeout 10 "$PINT" -n --offline watch --interval=0s --listen=127.0.0.1:17922 glob rules.yml >out.txt 2>&1; e=$?
echo "exit=$e"; grep -m1 -A6 '^panic' out.txt
grep -q '^panic' out.txt && echo "VIOLATION: accepted flag value panics" && exit 1
exit 0
