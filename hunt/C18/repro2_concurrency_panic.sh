#!/bin/bash
# Finding 2: prometheus { concurrency = <huge> } is accepted, then StartWorkers panics (makechan: size out of range),
# even with --offline. The same happens for the --workers flag.
. "$(dirname "$0")/common.sh"
cat > "$W/rules.yml" <<'EOR'
groups:
- name: g
  rules:
  - record: foo
    expr: up
EOR
cat > "$W/conc.hcl" <<'EOC'
prometheus "p" {
  uri         = "http://127.0.0.1:1"
  concurrency = 1000000000000000000
}
EOC
cd "$W"
timeout 30 "$PINT" -n --offline -c conc.hcl lint rules.yml >out1.txt 2>&1; e1=$?
echo "concurrency: exit=$e1"; grep -m1 -A3 '^panic' out1.txt
timeout 30 "$PINT" -n --offline --workers 4000000000000000000 lint rules.yml >out2.txt 2>&1; e2=$?
echo "--workers: exit=$e2"; grep -m1 -A3 '^panic' out2.txt
grep -q '^panic' out1.txt && echo "VIOLATION: accepted configuration panics" && exit 1
exit 0
