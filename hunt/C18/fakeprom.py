#!/usr/bin/env python3
# Minimal fake Prometheus: answers every query_range with one series that has a sample every 60s.
import json, sys, time, urllib.parse
from http.server import BaseHTTPRequestHandler, HTTPServer

class H(BaseHTTPRequestHandler):
    def log_message(self, *a): pass
    def _send(self, code, obj):
        body = json.dumps(obj).encode()
        self.send_response(code)
        self.send_header("Content-Type", "application/json")
        self.send_header("Content-Length", str(len(body)))
        self.end_headers()
        self.wfile.write(body)
    def do_GET(self): self.handle_any()
    def do_POST(self): self.handle_any()
    def handle_any(self):
        n = int(self.headers.get("Content-Length") or 0)
        body = self.rfile.read(n).decode() if n else ""
        u = urllib.parse.urlparse(self.path)
        args = urllib.parse.parse_qs(u.query); args.update(urllib.parse.parse_qs(body))
        sys.stderr.write("REQ %s %s\n" % (u.path, {k: v[0] for k, v in args.items()})); sys.stderr.flush()
        if u.path == "/api/v1/query_range":
            start = float(args["start"][0]); end = float(args["end"][0])
            vals = []; t = start
            while t <= end and len(vals) < 500:
                vals.append([t, "1"]); t += 60
            self._send(200, {"status": "success", "data": {"resultType": "matrix", "result": [{"metric": {"job": "x"}, "values": vals}]}})
        elif u.path == "/api/v1/query":
            self._send(200, {"status": "success", "data": {"resultType": "vector", "result": []}})
        else:
            self._send(200, {"status": "success", "data": {}})

HTTPServer(("127.0.0.1", int(sys.argv[1])), H).serve_forever()
