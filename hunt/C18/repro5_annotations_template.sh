#!/bin/bash
# Finding 5: the documented $annotations template variable is always empty and annotations overwrite $labels
# (newTemplateContext stores annotations into c.Labels).
. "$(dirname "$0")/common.sh"
cd "$W"
cat > rules.yml <<'EOR'
groups:
- name: g
  rules:
  - alert: Foo
    expr: up == 0
    labels:
      team: db
    annotations:
      team: db
      summary: db is down
  - alert: Bar
    expr: up == 0
    labels:
      team: db
    annotations:
      team: web
      summary: db is down
EOR
cat > ann.hcl <<'EOC'
rule {
  label "team" {
    value    = "{{ $annotations.team }}"
    required = true
  }
}
EOC
cat > lab.hcl <<'EOC'
rule {
  annotation "summary" {
    value    = "{{ $labels.team }} .*"
    required = true
  }
}
EOC
echo "== label team must equal annotation team; Foo (db/db) must pass, Bar (db/web) must fail"
"$PINT" -n --offline -c ann.hcl lint rules.yml 2>&1 | grep -v level=INFO | tee o1.txt
echo "== summary must start with the team label (db); both rules must pass"
"$PINT" -n --offline -c lab.hcl lint rules.yml 2>&1 | grep -v level=INFO | tee o2.txt
if grep -q '`Foo`' o1.txt || grep -q '`Bar`' o2.txt; then echo "VIOLATION: wrong reports from template expansion"; exit 1; fi
exit 0
