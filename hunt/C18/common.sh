# sourced by the reproducers
set -u
ROOT=$(cd "$(dirname "${BASH_SOURCE[0]}")/.." && pwd)
PINT=${PINT:-/tmp/pint-C18}
if [ ! -x "$PINT" ]; then
  (cd "$ROOT" && GOFLAGS=-mod=mod GOPROXY=off go build -tags stringlabels -o "$PINT" ./cmd/pint) || exit 2
fi
W=$(mktemp -d /tmp/hunt-C18-w.XXXXXX)
trap 'rm -rf "$W"; [ -n "${FAKEPID:-}" ] && kill $FAKEPID 2>/dev/null' EXIT
start_fake() { # port
  python3 "$ROOT/HUNT/fakeprom.py" "$1" 2>"$W/fake.log" & FAKEPID=$!
  sleep 1
}
