#!/bin/bash
# Finding 6: repository { gitlab { timeout = ... } } is never validated, and `pint ci` parses all repository timeouts with
# time.ParseDuration while the loader validates them with the Prometheus duration syntax. "banana" and "1d" are both
# accepted and become a zero timeout: every GitLab request fails with "context deadline exceeded".
. "$(dirname "$0")/common.sh"
PORT=17923
start_fake $PORT
mkdir "$W/repo" && cd "$W/repo"
git init -q -b main . && git config user.email a@b && git config user.name n
mkdir rules
cat > rules/a.yml <<'EOR'
groups:
- name: g
  rules:
  - alert: Foo
    expr: up == 0
    for: 5m
EOR
git add . && git commit -qm init && git checkout -qb feat && sed -i 's/5m/6m/' rules/a.yml && git commit -qam change
bad=0
for t in banana 1d 1m; do
cat > "$W/ci-$t.hcl" <<EOC
ci { baseBranch = "main" }
repository {
  gitlab {
    uri     = "http://127.0.0.1:$PORT"
    project = 1
    timeout = "$t"
  }
}
EOC
  echo "== gitlab timeout=$t"
  GITLAB_AUTH_TOKEN=x timeout 60 "$PINT" -n --offline -c "$W/ci-$t.hcl" ci 2>&1 | grep 'level=ERROR' | tee "$W/o-$t.txt"
  grep -q "context deadline exceeded" "$W/o-$t.txt" && bad=1
done
echo "(the timeout=1m control fails later, on the fake server's answer, not on a deadline)"
[ $bad = 1 ] && echo "VIOLATION: accepted timeout value turns into a zero timeout" && exit 1
exit 0
