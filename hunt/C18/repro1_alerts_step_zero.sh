#!/bin/bash
# Finding 1: alerts { step = "0s" } (and check "promql/series" { lookbackStep = "0s" }) is accepted and then
# pint never finishes: SeriesTimeRanges.FindGaps adds a zero step in its loop.
. "$(dirname "$0")/common.sh"
PORT=17921
start_fake $PORT
cat > "$W/rules.yml" <<'EOR'
groups:
- name: g
  rules:
  - alert: Foo
    expr: up == 0
    for: 5m
EOR
cat > "$W/step0.hcl" <<EOC
prometheus "p" {
  uri = "http://127.0.0.1:$PORT"
}
rule {
  alerts {
    range   = "1h"
    step    = "0s"
    resolve = "5m"
  }
}
EOC
cat > "$W/series0.hcl" <<EOC
prometheus "p" {
  uri = "http://127.0.0.1:$PORT"
}
check "promql/series" {
  lookbackStep = "0s"
}
EOC
cd "$W"
rc=0
timeout 20 "$PINT" -n -e alerts/count -c step0.hcl lint rules.yml >out1.txt 2>&1; e1=$?
echo "alerts step=0s: exit=$e1 (124 = killed by timeout after 20s)"; tail -2 out1.txt
timeout 20 "$PINT" -n -e promql/series -c series0.hcl lint rules.yml >out2.txt 2>&1; e2=$?
echo "promql/series lookbackStep=0s: exit=$e2 (124 = killed by timeout after 20s)"; tail -2 out2.txt
sed -i 's/"0s"/"1m"/' step0.hcl
timeout 20 "$PINT" -n -e alerts/count -c step0.hcl lint rules.yml >out3.txt 2>&1; e3=$?
echo "alerts step=1m (control): exit=$e3"
[ $e1 = 124 ] && echo "VIOLATION: accepted configuration hangs the lint run" && exit 1
exit 0
