#!/bin/bash
# Finding 7: prometheus { uptime = ... } is validated with go/parser.ParseExpr (Go syntax) and not as PromQL:
# a valid selector with a matcher is rejected, Go code is accepted and later sent to Prometheus as count(func(){}).
. "$(dirname "$0")/common.sh"
cd "$W"
cat > rules.yml <<'EOR'
groups:
- name: g
  rules:
  - record: foo
    expr: up
EOR
cat > up1.hcl <<'EOC'
prometheus "p" {
  uri    = "http://127.0.0.1:1"
  uptime = "up{job=\"prometheus\"}"
}
EOC
cat > up2.hcl <<'EOC'
prometheus "p" {
  uri    = "http://127.0.0.1:1"
  uptime = "func(){}"
}
EOC
echo "== valid PromQL selector"; "$PINT" -n --offline -c up1.hcl lint rules.yml 2>&1 | grep -v 'level=INFO msg="\(Loading\|Finding\|Checking\|Offline\)' | tee o1.txt
echo "== Go source, not PromQL"; "$PINT" -n --offline -c up2.hcl lint rules.yml 2>&1 | grep -v 'level=INFO msg="\(Loading\|Finding\|Checking\|Offline\)' | tee o2.txt
if grep -q 'invalid Prometheus uptime' o1.txt || grep -q 'uptime=func' o2.txt; then echo "VIOLATION: uptime is validated with the wrong grammar"; exit 1; fi
exit 0
