# sourced by the repro_*.sh scripts
HUNT_DIR=$(cd "$(dirname "$0")" && pwd)
REPO=$(cd "$HUNT_DIR/.." && pwd)
PINT=${PINT:-/tmp/pint-C07}
if [ ! -x "$PINT" ]; then
  (cd "$REPO" && GOFLAGS=-mod=mod GOPROXY=off go build -tags stringlabels -o "$PINT" ./cmd/pint) || exit 2
fi
WORK=$(mktemp -d /tmp/hunt-C07-repro.XXXXXX)
trap 'rm -rf "$WORK"' EXIT
cd "$WORK"

# problems <config> <rulefile> [extra global flags, e.g. --offline]
# one line per problem: reporter | severity | first-last line | summary
problems() {
  cfg="$1"; f="$2"; shift 2
  "$PINT" -n -l error -c "$cfg" -s "$@" lint --min-severity info --json out.json "$f" >/dev/null 2>err.txt
  python3 - out.json <<'PY'
import json,sys
try:
    d=json.load(open(sys.argv[1]))
except Exception as e:
    print("  NO JSON REPORT:", e); sys.exit()
if not d: print("  (no problems)")
for p in d:
    l=p.get("lines") or [0]
    print("  %s | %s | lines %d-%d | %s" % (p.get("reporter"),p.get("severity"),l[0],l[-1],p.get("problem")))
PY
}

cat > labels.hcl <<'EOC'
rule {
  label "severity" {
    required = true
    severity = "bug"
  }
  annotation "summary" {
    required = true
    severity = "bug"
  }
}
EOC
