#!/bin/sh
# Characters other than letters, '/' and '-' inside the comment type keyword are skipped instead of
# invalidating the comment.
. "$(dirname "$0")/lib.sh"
mk() { printf 'groups:\n- name: g\n  rules:\n  %s\n  - alert: A\n    expr: up == 0\n    labels:\n      team: x\n    annotations:\n      summary: x\n' "$1"; }
for c in '# no comment' '# pint dis4able rule/label' '# pint di#sable rule/label' '# pint file/d.i.s.a.b.l.e rule/label' '# pint ignore/file???' '# pint disabled rule/label'; do
  mk "$c" > r.yml
  echo "== $c"
  problems labels.hcl r.yml --offline
done
echo
echo "EXPECTED: none of these is a pint control comment (just like '# pint disabled ...'), the rule/label problem stays."
echo "OBSERVED: 'dis4able', 'di#sable', 'file/d.i.s.a.b.l.e' act as disable / file/disable, '# pint ignore/file???' excludes the whole file."
