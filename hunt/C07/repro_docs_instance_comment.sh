#!/bin/sh
# The instance specific disable comments documented for rule/label and alerts/annotation with a value
# do not match the instance.
. "$(dirname "$0")/lib.sh"
cat > val.hcl <<'EOC'
rule {
  label "severity" {
    value    = "(warning|critical)"
    required = true
    severity = "bug"
  }
  annotation "dashboard" {
    severity = "bug"
    value    = "https://grafana\\.example\\.com/.+"
    required = true
  }
}
EOC
mk() { printf 'groups:\n- name: g\n  rules:\n  %s\n  - alert: A\n    expr: up == 0\n    labels:\n      team: x\n    annotations:\n      foo: bar\n' "$1"; }
for c in '# no comment' \
  '# pint disable rule/label(severity:true:^(warning|critical)$)' \
  '# pint disable rule/label(severity=~^(warning|critical)$:true)' \
  '# pint disable alerts/annotation(dashboard:https://grafana\.example\.com/.+:true)' \
  '# pint disable alerts/annotation(dashboard=~^https://grafana\.example\.com/.+$:true)'; do
  mk "$c" > r.yml
  echo "== $c"
  problems val.hcl r.yml --offline
done
echo
echo "EXPECTED: the 2nd and 4th comments are copied from docs/checks/rule/label.md and docs/checks/alerts/annotation.md"
echo "          ('How to disable it') and should disable that instance."
echo "OBSERVED: they change nothing; only the undocumented 'key=~^value\$:required' form works."
