#!/bin/sh
# NOTE (design question, not counted as a defect of the stated property): a locked rule block ignores
# "# pint disable" but not "# pint file/disable" / "# pint file/snooze".
. "$(dirname "$0")/lib.sh"
cat > locked.hcl <<'EOC'
rule {
  locked = true
  label "severity" {
    required = true
    severity = "bug"
  }
}
EOC
mk() { printf '%s\ngroups:\n- name: g\n  rules:\n  - alert: A\n    expr: up == 0\n    labels:\n      team: x\n' "$1"; }
for c in '# pint disable rule/label' '# pint file/disable rule/label' '# pint file/snooze 2099-01-01 rule/label'; do
  mk "$c" > r.yml; echo "== $c"; problems locked.hcl r.yml --offline
done
