#!/bin/sh
# Comments attached to a merge key ("<<") or to its alias value are dropped, so "between fields" /
# trailing placements next to a merge key do nothing.
. "$(dirname "$0")/lib.sh"
cat > r.yml <<'EOY'
groups:
- name: g
  rules:
  - &base
    alert: A
    expr: up == 0
    labels:
      team: x
    annotations:
      summary: x
  - alert: B
    # pint disable rule/label
    <<: *base
  - alert: C
    <<: *base # pint disable rule/label
  - alert: D
    <<: *base
    # pint disable rule/label
  - alert: E
    # pint disable rule/label
    for: 1m
    <<: *base
EOY
problems labels.hcl r.yml --offline
echo
echo "EXPECTED: rule/label reported for A only; B, C, D, E carry a disable comment inside the rule body."
echo "OBSERVED: rule/label still reported for B, C and D (comment silently ignored); only E (comment next to an ordinary key) is honoured."
