#!/bin/sh
# A disable comment placed above ONE rule that starts with "<<: *anchor" also disables the check
# for every later rule merging the same anchor.
. "$(dirname "$0")/lib.sh"
cat > with.yml <<'EOY'
groups:
- name: g
  rules:
  - &base
    alert: A
    expr: up == 0
    labels:
      team: x
    annotations:
      summary: x
  # pint disable rule/label
  - <<: *base
    alert: B
  - <<: *base
    alert: C
  - <<: *base
    alert: D
EOY
grep -v '# pint' with.yml > without.yml
echo "== without the comment (4 rules, 4 rule/label problems)"; problems labels.hcl without.yml --offline
echo "== with '# pint disable rule/label' above rule B only"; problems labels.hcl with.yml --offline
echo
echo "EXPECTED: only rule B loses its rule/label problem (3 remain: A, C, D)."
echo "OBSERVED: B, C and D all lose it (only A remains)."
