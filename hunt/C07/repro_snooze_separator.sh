#!/bin/sh
# A snooze comment with two spaces (or a tab) between the timestamp and the check name is silently ineffective.
. "$(dirname "$0")/lib.sh"
mk() { printf 'groups:\n- name: g\n  rules:\n  %s\n  - alert: A\n    expr: up == 0\n    labels:\n      team: x\n    annotations:\n      summary: x\n' "$1"; }
TAB=$(printf '\t')
for c in '# no comment' \
         '# pint snooze 2099-01-01 rule/label' \
         '# pint snooze  2099-01-01 rule/label' \
         '# pint snooze 2099-01-01  rule/label' \
         '# pint disable  rule/label' \
         "# pint snooze 2099-01-01${TAB}rule/label" \
         "# pint disable${TAB}rule/label"; do
  mk "$c" > r.yml
  echo "== $c"
  problems labels.hcl r.yml --offline
done
echo
echo "EXPECTED: every future snooze/disable form above removes the rule/label problem (or is at least reported as an invalid comment)."
echo "OBSERVED: 'snooze 2099-01-01  rule/label' (two spaces) keeps rule/label and says nothing about the comment;"
echo "          the tab form is reported as invalid although a tab is accepted everywhere else in the comment."
