#!/bin/sh
# "# pint disable promql/series(<selector>)" only looks at the first matcher of <selector>.
# End-to-end run against a mock Prometheus that has no series at all (HUNT/mockprom.py).
# The same defect as a unit test: HUNT/series_selector_disable_test.go.txt
. "$(dirname "$0")/lib.sh"
PORT=${PORT:-39117}
python3 "$HUNT_DIR/mockprom.py" "$PORT" >/dev/null 2>&1 &
MOCK=$!
trap 'kill $MOCK 2>/dev/null; rm -rf "$WORK"' EXIT
sleep 1
cat > mock.hcl <<EOC
prometheus "mock" {
  uri     = "http://127.0.0.1:$PORT"
  timeout = "5s"
}
checks {
  enabled = ["promql/series"]
}
EOC
mk() { printf 'groups:\n- name: g\n  rules:\n  %s\n  - alert: A\n    expr: my_metric_name{instance="a"} / other_metric{instance="a"} > 1\n' "$1"; }
for c in '# no comment' \
  '# pint disable promql/series(my_metric_name{instance="a"})' \
  '# pint disable promql/series(my_metric_name{instance="a", job="x"})' \
  '# pint disable promql/series(my_metric_name{job="x", instance="a"})' \
  '# pint snooze 2099-01-01 promql/series(other_metric{instance="a", job="x"})'; do
  mk "$c" > r.yml
  echo "== $c"
  "$PINT" -n -l error -c mock.hcl lint r.yml 2>&1 | grep -E '\^\^' | sed -E 's/^ *\^+ /  /'
done
echo
echo "EXPECTED: comment 2 removes only the my_metric_name problem (docs: 'Disable promql/series only for"
echo "          my_metric_name{instance=\"a\"} metric selector'); comments 3, 4, 5 match no selector (nothing has job=\"x\"),"
echo "          and 3 and 4 differ only in matcher order so they must behave the same."
echo "OBSERVED: comments 2, 3 and 5 remove BOTH problems, comment 4 removes none: only the first matcher inside"
echo "          the braces is compared, the metric name and the remaining matchers are ignored."
