#!/usr/bin/env python3
# Minimal Prometheus API mock: every query returns an empty result, so promql/series reports
# every selector it is allowed to look at. usage: mockprom.py PORT
import json, sys
from http.server import BaseHTTPRequestHandler, HTTPServer

class H(BaseHTTPRequestHandler):
    def log_message(self, *a): pass
    def reply(self):
        p = self.path.split("?")[0]
        if p.endswith("/status/config"):
            d = {"yaml": "global:\n  scrape_interval: 1m\n"}
        elif p.endswith("/status/flags"):
            d = {"storage.tsdb.retention.time": "15d"}
        elif p.endswith("/metadata"):
            d = {}
        elif p.endswith("/query_range"):
            d = {"resultType": "matrix", "result": []}
        elif p.endswith("/query"):
            d = {"resultType": "vector", "result": []}
        else:
            d = {}
        b = json.dumps({"status": "success", "data": d}).encode()
        self.send_response(200)
        self.send_header("Content-Type", "application/json")
        self.send_header("Content-Length", str(len(b)))
        self.end_headers()
        self.wfile.write(b)
    def do_GET(self): self.reply()
    def do_POST(self):
        n = int(self.headers.get("Content-Length") or 0)
        self.rfile.read(n)
        self.reply()

HTTPServer(("127.0.0.1", int(sys.argv[1])), H).serve_forever()
