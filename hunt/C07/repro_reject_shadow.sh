#!/bin/sh
# rule/reject instances for labels and for annotations have the same String(), so the second one
# is dropped as "already enabled" by parsedRule.isEnabled.
. "$(dirname "$0")/lib.sh"
cat > r.yml <<'EOY'
groups:
- name: g
  rules:
  - alert: A
    expr: up == 0
    labels:
      bad: x
    annotations:
      bad: x
EOY
cat > r_disabled.yml <<'EOY'
groups:
- name: g
  rules:
  # pint disable rule/reject(key=~'^bad$')
  - alert: A
    expr: up == 0
    labels:
      bad: x
    annotations:
      bad: x
EOY
cat > one.hcl <<'EOC'
rule {
  reject "bad" {
    label_keys      = true
    annotation_keys = true
    severity        = "bug"
  }
}
EOC
cat > two.hcl <<'EOC'
rule {
  reject "bad" {
    label_keys = true
    severity   = "bug"
  }
}
rule {
  locked = true
  reject "bad" {
    annotation_keys = true
    severity        = "bug"
  }
}
EOC
echo "== (a) one reject block with label_keys and annotation_keys: label 'bad' on line 7, annotation 'bad' on line 9"
problems one.hcl r.yml --offline
echo "== (b) unlocked label_keys block + locked annotation_keys block, no comment"
problems two.hcl r.yml --offline
echo "== (b) same, with \"# pint disable rule/reject(key=~'^bad\$')\" added above the rule (everything shifts by one line)"
problems two.hcl r_disabled.yml --offline
echo
echo "EXPECTED: (a) two problems (line 7 and line 9). (b) the comment removes the unlocked label problem and changes nothing else."
echo "OBSERVED: (a) the annotation key is never reported. (b) adding the disable comment makes a NEW problem appear"
echo "          (annotation key, line 10) that the report without the comment did not contain."
