#!/bin/sh
# Runs the C16 reproducers against the unchanged source tree. Every TestF* failure is a finding.
set -u
cd "$(dirname "$0")/.."
export GOFLAGS=-mod=mod GOPROXY=off
go build -tags stringlabels -o "${PINT_BIN:=/tmp/pint-C16}" ./cmd/pint
export PINT_BIN
cp HUNT/series_harness_test.go.txt internal/checks/zz_hunt_harness_test.go
cp HUNT/series_findings_test.go.txt internal/checks/zz_hunt_findings_test.go
go test -tags stringlabels ./internal/checks/ -run 'TestF[0-9]' -v 2>&1 | grep -v 'logger.go:' 
rm -f internal/checks/zz_hunt_harness_test.go internal/checks/zz_hunt_findings_test.go
git checkout -q go.mod go.sum 2>/dev/null
