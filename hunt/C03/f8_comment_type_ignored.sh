#!/bin/bash
# F8: Rule.IsIdentical compares control comments by Value.String() only, the comment type is dropped.
# Owner{Name:x}, Disable{Match:x} and RuleSet{Value:x} all print as "x", so replacing one control comment with
# another one of a different kind leaves the rule "noop".
. "$(dirname "$0")/lib.sh"
newrepo
cat > rules/a.yml <<'EOR'
groups:
- name: g
  rules:
  # pint rule/owner rule/label
  - alert: A
    expr: up == 0
EOR
commit base
git checkout -q -b feature
sed -i 's,pint rule/owner rule/label,pint disable rule/label,' rules/a.yml
commit c1
echo "# git diff main HEAD:"; git diff main HEAD
echo "# states seen by pint ci:"; states
if states | grep -q 'A noop'; then echo "DEFECT: control comment changed from rule/owner to disable, rule A classified noop"; exit 1; fi
echo "not reproduced"
