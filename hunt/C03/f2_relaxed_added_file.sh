#!/bin/bash
# F2: GitBranchFinder picks strict/relaxed parsing from the BEFORE path of a change.
# A file added (Before.Name == "") or renamed into a `parser.relaxed` directory is parsed in strict mode:
# pint ci reports a bogus yaml/parse Fatal and the new rules stay "noop".
. "$(dirname "$0")/lib.sh"
newrepo
cat > .pint.hcl <<'EOC'
parser {
  include = [ "rules/.*" ]
  relaxed = [ "rules/relaxed/.*" ]
}
rule {
  label "mustbeset" {
    required = true
    severity = "bug"
  }
}
EOC
cat > rules/a.yml <<'EOR'
groups:
- name: g
  rules:
  - alert: A
    expr: up == 0
EOR
commit base
git checkout -q -b feature
mkdir rules/relaxed
cat > rules/relaxed/new.yml <<'EOR'
- alert: New
  expr: up == 0
EOR
commit c1
echo "# pint lint (same config) parses the file fine:"; "$PINT" -l error --no-color lint rules/relaxed 2>&1
echo "# states seen by pint ci:"; states
echo "# pint ci output:"; "$PINT" -l error --no-color ci --base-branch=main 2>&1
if states | grep -q 'New noop'; then echo "DEFECT: added rule New is noop and a strict-mode parse error is reported for a relaxed file"; exit 1; fi
echo "not reproduced"
