#!/bin/bash
# F5: an untouched rule that fails to parse (Rule.Error, Name()=="") is never matched by identity
# (matchEntries skips rules with an empty name), it is matched "by name" with name "" and becomes Modified.
# On top of that Rule.IsSame compares ParseError values with != (two errors.New values from two parser runs are
# never equal) so the entry is not merged into the glob entry and the rule is listed twice (noop + modified).
. "$(dirname "$0")/lib.sh"
newrepo
cat > rules/a.yml <<'EOR'
groups:
- name: g
  rules:
  - alert: A
    expr: up == 0
  - alert: NoExpr
    for: 5m
  - alert: B
    expr: up == 1
EOR
cat > rules/b.yml <<'EOR'
groups:
- name: g
  rules:
  - alert: C
    expr: up == 1
EOR
commit base
git checkout -q -b control
sed -i 's/up == 1/up == 2/' rules/b.yml
commit c1
echo "# control: other file edited -> invalid rule is not reported"; states; "$PINT" -l error --no-color ci --base-branch=main 2>&1 | grep -c 'missing expr key'
git checkout -q main; git checkout -q -b feature
sed -i 's/up == 1/up == 2/' rules/a.yml
commit c1
echo "# feature: rule B of the same file edited, NoExpr untouched"; states; "$PINT" -l error --no-color ci --base-branch=main 2>&1 | grep 'Fatal'
if states | grep -q 'invalid.* modified'; then echo "DEFECT: untouched invalid rule is classified modified (and listed twice)"; exit 1; fi
echo "not reproduced"
