#!/bin/bash
# F1: a changed file whose name git quotes (non-ASCII, ", \, tab) is invisible to `pint ci`:
# every new/modified rule in it stays "noop" and no CI-only check runs on it.
. "$(dirname "$0")/lib.sh"
newrepo
cat > rules/a.yml <<'EOR'
groups:
- name: g
  rules:
  - alert: A
    expr: up == 0
EOR
commit base
git checkout -q -b feature
cat > "rules/zażółć.yml" <<'EOR'
groups:
- name: g
  rules:
  - alert: New
    expr: up == 0
EOR
sed -i 's/up == 0/up == 2/' rules/a.yml
commit c1
echo "# git log --name-status main..HEAD:"; git log --name-status --format=%H main..HEAD
echo "# states seen by pint ci:"; states
echo "# problems:"; problems
if states | grep -q 'New noop'; then echo "DEFECT: rule New (added on the branch) is classified noop, rule/label was not run on it"; exit 1; fi
echo "not reproduced"
