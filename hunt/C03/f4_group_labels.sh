#!/bin/bash
# F4: the before/after comparison looks at the rule mapping only; group level `labels:` (which are labels of every
# rule in the group, Entry.Labels() merges them and rule/label checks them) are not compared.
# Removing a required label from the group passes `pint ci`, `pint lint` on the same tree fails.
. "$(dirname "$0")/lib.sh"
newrepo
cat > rules/a.yml <<'EOR'
groups:
- name: g
  labels:
    mustbeset: "yes"
  rules:
  - alert: A
    expr: up == 0
  - alert: B
    expr: up == 1
EOR
commit base
git checkout -q -b feature
sed -i 's/mustbeset:/other:/' rules/a.yml
commit c1
echo "# states seen by pint ci:"; states
echo "# pint ci:"; "$PINT" -l error --no-color ci --base-branch=main 2>&1; echo "exit=$?"
echo "# pint lint:"; "$PINT" -l error --no-color lint rules 2>&1; echo "exit=$?"
if states | grep -q 'A noop'; then echo "DEFECT: labels of A and B changed (mustbeset removed) but both rules are noop and CI is green"; exit 1; fi
echo "not reproduced"
