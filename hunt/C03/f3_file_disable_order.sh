#!/bin/bash
# F3: isEntryIdentical compares sort.StringSlice(x) values, which is a type conversion, not a sort.
# Swapping two `# pint file/disable` lines (same set of disabled checks) marks every rule of the file as modified.
. "$(dirname "$0")/lib.sh"
newrepo
cat > rules/a.yml <<'EOR'
# pint file/disable promql/rate
# pint file/disable promql/series
groups:
- name: g
  rules:
  - alert: A
    expr: up == 0
  - alert: B
    expr: up == 1
EOR
commit base
git checkout -q -b feature
cat > rules/a.yml <<'EOR'
# pint file/disable promql/series
# pint file/disable promql/rate
groups:
- name: g
  rules:
  - alert: A
    expr: up == 0
  - alert: B
    expr: up == 1
EOR
commit c1
echo "# states seen by pint ci:"; states
echo "# problems:"; "$PINT" -l error --no-color ci --base-branch=main 2>&1
if states | grep -q 'modified'; then echo "DEFECT: untouched rules A and B are classified modified"; exit 1; fi
echo "not reproduced"
