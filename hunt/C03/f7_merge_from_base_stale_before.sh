#!/bin/bash
# F7: the BEFORE body is read at <first branch commit touching the file>^, not at the merge base of base and HEAD.
# After base advanced, was merged into the branch, and the file is touched again, rules changed only on base
# (identical between base and HEAD) are classified modified.
. "$(dirname "$0")/lib.sh"
newrepo
cat > rules/a.yml <<'EOR'
groups:
- name: g
  rules:
  - alert: A
    expr: up == 0
  - alert: B
    expr: up == 1
EOR
commit base
git checkout -q -b feature
sed -i 's/up == 1/up == 2/' rules/a.yml
commit c1
git checkout -q main
sed -i 's/up == 0/up == 10/' rules/a.yml
commit main2
git checkout -q feature
git merge -q --no-edit main >/dev/null || exit 3
sed -i 's/up == 2/up == 3/' rules/a.yml
commit c2
echo "# git diff main HEAD:"; git diff main HEAD
echo "# states seen by pint ci:"; states
if states | grep -q 'A modified'; then echo "DEFECT: rule A is identical on main and HEAD but classified modified"; exit 1; fi
echo "not reproduced"
