# Helpers shared by the reproducer scripts. Source it: . "$(dirname "$0")/lib.sh"
PINT=${PINT:-/tmp/pint-fixed}
if [ ! -x "$PINT" ]; then
  (cd "$(dirname "${BASH_SOURCE[0]}")/.." && GOFLAGS=-mod=mod GOPROXY=off go build -tags stringlabels -o "$PINT" ./cmd/pint) || exit 2
fi
export GIT_CONFIG_GLOBAL=/dev/null GIT_CONFIG_SYSTEM=/dev/null
export GIT_AUTHOR_NAME=t GIT_AUTHOR_EMAIL=t@example.com GIT_COMMITTER_NAME=t GIT_COMMITTER_EMAIL=t@example.com

newrepo() { # creates an empty repo on branch main in a fresh temp dir and cds into it
  REPO=$(mktemp -d /tmp/hunt-C03-repo.XXXXXX)
  cd "$REPO" || exit 2
  git init -q -b main .
  # a label check that fires on every rule it is run on: it applies (by default) to changed rules only
  cat > .pint.hcl <<'EOC'
parser { include = [ "rules/.*" ] }
rule {
  label "mustbeset" {
    required = true
    severity = "bug"
  }
}
EOC
  mkdir -p rules
}
commit() { git add -A . && git commit -q -m "${1:-c}" ; }
# prints "path name state" for every rule pint ci found, as logged by pint itself
states() {
  "$PINT" -l debug --no-color ci --base-branch="${1:-main}" 2>&1 \
    | grep -E 'msg="Found (alerting|recording|invalid) rule"' \
    | sed -E 's/.*path=("[^"]*"|[^ ]*) (alert|record)=("[^"]*"|[^ ]*) .*state=([a-z]+).*/\1 \3 \4/; s/.*msg="Found invalid rule" path=("[^"]*"|[^ ]*) lines=([^ ]*) state=([a-z]+).*/\1 <invalid:\2> \3/' | sort
}
# prints the problems reported by pint ci (one "path:line check" per problem)
problems() {
  "$PINT" -l error --no-color ci --base-branch="${1:-main}" 2>&1 | grep -E '^(Bug|Warning|Fatal|Information): ' 
}
