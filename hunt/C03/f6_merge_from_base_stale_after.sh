#!/bin/bash
# F6: the AFTER body of a change is read at the last non-merge branch commit that touched the file, not at HEAD.
# After `git merge main` (base advanced and shifted lines) the git entries carry stale line numbers, do not match
# the glob entries (Rule.IsSame compares lines) and get appended: every rule is listed twice, the real HEAD rule
# stays noop and the problem is reported on lines that belong to another rule.
. "$(dirname "$0")/lib.sh"
newrepo
cat > rules/a.yml <<'EOR'
groups:
- name: g
  rules:
  - alert: A
    expr: up == 0
  - alert: B
    expr: up == 1
EOR
commit base
git checkout -q -b feature
sed -i 's/up == 1/up == 2/' rules/a.yml
commit c1
git checkout -q main
cat > rules/a.yml <<'EOR'
groups:
- name: g
  rules:
  - alert: A
    expr: up == 0
    labels:
      mustbeset: "yes"
  - alert: B
    expr: up == 1
EOR
commit main2
git checkout -q feature
git merge -q --no-edit main >/dev/null || exit 3
echo "# HEAD file:"; cat -n rules/a.yml
echo "# states seen by pint ci:"; states
echo "# pint ci:"; "$PINT" -l error --no-color ci --base-branch=main 2>&1
n=$(states | wc -l)
if [ "$n" != 2 ]; then echo "DEFECT: $n entries for 2 rules; B reported at lines 6-7 (rule A's labels), HEAD rule B (8-9) is noop"; exit 1; fi
echo "not reproduced"
