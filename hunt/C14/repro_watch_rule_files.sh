#!/bin/bash
# Findings 1 and 4. `pint watch rule_files` asks for the server configuration with a cache lifetime of 1ms
# on every iteration, so that a changed rule_files list is picked up. The fake server returns a different
# rule_files entry on every config request (gen1.yml, gen2.yml, ...).
# EXPECTED: one config request per iteration from the path finder (the 1ms answer is long dead 2s later),
#           paths=[genN.yml] advancing; and the checks reuse the config answer instead of asking again.
# OBSERVED: paths stays gen1.yml for every iteration (expired answer reused until the 2-minute gc), and the
#           server sees /api/v1/status/config twice within 100ms (finder and checks use two separate
#           FailoverGroups - two caches, two lockers, two worker pools - for the same server).
HERE=$(cd "$(dirname "$0")" && pwd); WORK=${WORK:-/tmp/c14work}
[ -x "$WORK/pint" ] || "$HERE/build_tools.sh"
D=$WORK/rule_files; rm -rf "$D"; mkdir -p "$D/rules"; cd "$D"
for i in $(seq 1 20); do printf 'groups:\n- name: g\n  rules:\n  - record: gen%s:up\n    expr: sum(up)\n' $i > rules/gen$i.yml; done
cat > pint.hcl <<EOC
prometheus "prom" {
  uri         = "http://127.0.0.1:19437"
  concurrency = 2
  timeout     = "5s"
}
EOC
"$WORK/fakeprom/fakeprom" -listen 127.0.0.1:19437 -delay 20ms -rulefiles-dir "$D/rules" -log "$D/req.log" & FP=$!
sleep 0.3
timeout -s TERM 10 "$WORK/pint" -c pint.hcl --no-color watch --interval 2s --listen 127.0.0.1:19438 rule_files prom > out.txt 2>&1
kill -TERM $FP; sleep 0.3
echo "--- paths checked on each iteration:"; grep "Finding all rules" out.txt | sed 's/.*paths=/paths=/'
echo "--- requests seen by the server:"; grep -v SUMMARY req.log
grep SUMMARY req.log
