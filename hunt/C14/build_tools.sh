#!/bin/bash
# Builds the pint binary from the unchanged tree and the fake Prometheus server used by the repro_*.sh scripts.
set -e
HERE=$(cd "$(dirname "$0")" && pwd)
export GOFLAGS=-mod=mod GOPROXY=off
WORK=${WORK:-/tmp/c14work}
mkdir -p "$WORK/fakeprom"
(cd "$HERE/.." && go build -tags stringlabels -o "$WORK/pint" ./cmd/pint)
cp "$HERE/fakeprom.go.txt" "$WORK/fakeprom/main.go"
(cd "$WORK/fakeprom" && { [ -f go.mod ] || go mod init fakeprom >/dev/null 2>&1; } && go build -o "$WORK/fakeprom/fakeprom" .)
echo "built $WORK/pint and $WORK/fakeprom/fakeprom"
