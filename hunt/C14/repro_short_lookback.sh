#!/bin/bash
# Finding 2 at the binary level. 12 alerting rules, alerts/count check. Every rule asks the server the same
# question "count(up) over the last <range>, step 1m".
# EXPECTED: the question reaches the server once per slice (as it does for range=6h: 4 slices, 4 requests).
# OBSERVED: with range=1h (below the 2h slice size) there is one request per wall-clock second in which a rule
#           happens to be checked: start/end are taken from time.Now() unaligned and the cache key keeps the
#           start with one second resolution.
HERE=$(cd "$(dirname "$0")" && pwd); WORK=${WORK:-/tmp/c14work}
[ -x "$WORK/pint" ] || "$HERE/build_tools.sh"
D=$WORK/short_lookback; rm -rf "$D"; mkdir -p "$D"; cd "$D"
{ printf 'groups:\n- name: g\n  rules:\n'; for i in $(seq 0 11); do printf '  - alert: A%s\n    expr: rate(foo_total{job="j"}[5m]) > %s\n    for: 5m\n' $i $i; done; } > rules.yml
for R in 6h 1h; do
cat > pint-$R.hcl <<EOC
prometheus "prom" {
  uri         = "http://127.0.0.1:19441"
  concurrency = 4
  timeout     = "5s"
}
checks { enabled = ["alerts/count"] }
rule {
  alerts {
    range   = "$R"
    step    = "1m"
    resolve = "5m"
  }
}
EOC
"$WORK/fakeprom/fakeprom" -listen 127.0.0.1:19441 -delay 300ms -log "$D/req-$R.log" & FP=$!
sleep 0.3
"$WORK/pint" -c pint-$R.hcl --no-color -w 2 lint rules.yml > out-$R.txt 2>&1
kill -TERM $FP; sleep 0.3
echo "== range=$R: query_range requests for count(up):"
grep 'query=count(up)' req-$R.log | awk '{print "   ", $5}'
done
