#!/bin/bash
# Finding 5. `pint watch` with a discovery block: every iteration runs discovery again and tries to add the
# same servers to the generator that already holds them (and their caches / worker pools).
# EXPECTED: every iteration runs the checks, reusing the server objects (cache, locker, pool) of the first one.
# OBSERVED: from the second iteration on: ERROR "Duplicated name for Prometheus server definition: prom1",
#           no checks run any more, the reported problems are frozen at the first iteration.
HERE=$(cd "$(dirname "$0")" && pwd); WORK=${WORK:-/tmp/c14work}
[ -x "$WORK/pint" ] || "$HERE/build_tools.sh"
D=$WORK/watch_discovery; rm -rf "$D"; mkdir -p "$D/servers"; cd "$D"; touch servers/prom1.txt
cat > pint.hcl <<EOC
discovery {
  filepath {
    directory = "$D/servers"
    match     = "(?P<name>\\\\w+)\\\\.txt"
    template {
      name        = "{{ \$name }}"
      uri         = "http://127.0.0.1:19435"
      concurrency = 2
      timeout     = "5s"
    }
  }
}
EOC
printf 'groups:\n- name: g\n  rules:\n  - alert: A\n    expr: rate(foo_total{job="j"}[5m]) > 0\n' > rules.yml
"$WORK/fakeprom/fakeprom" -listen 127.0.0.1:19435 -delay 20ms -log "$D/req.log" & FP=$!
sleep 0.3
timeout -s TERM 9 "$WORK/pint" -c pint.hcl --no-color watch --interval 3s --listen 127.0.0.1:19436 glob rules.yml > out.txt 2>&1
kill -TERM $FP; sleep 0.3
grep -v "level=DEBUG" out.txt | cut -c1-200
