#!/bin/bash
# Runs the Go reproducers (findings 1, 2, 3) inside internal/promapi and removes the copied file afterwards.
HERE=$(cd "$(dirname "$0")" && pwd)
export GOFLAGS=-mod=mod GOPROXY=off
cp "$HERE/c14_hunt_test.go.txt" "$HERE/../internal/promapi/c14_hunt_test.go"
(cd "$HERE/.." && go test -tags stringlabels -count=1 -run 'TestC14' -v ./internal/promapi/ 2>&1 | grep -v 'level=\|^time=\|ERROR Query')
rm -f "$HERE/../internal/promapi/c14_hunt_test.go"
