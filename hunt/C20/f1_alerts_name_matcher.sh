#!/bin/bash
# Removed alerting rule; dependant selects {__name__="ALERTS", alertname="Foo"}
. "$(dirname "$0")/lib.sh"
newrepo
cat > rules.yml <<'Y'
groups:
- name: g
  rules:
  - alert: Foo
    expr: up == 0
  - alert: Bar
    expr: up == 0
  - record: dep:name_matcher
    expr: count({__name__="ALERTS", alertname="Foo"})
  - record: dep:plain
    expr: count(ALERTS{alertname="Bar"})
Y
commit base
git checkout -q -b br
cat > rules.yml <<'Y'
groups:
- name: g
  rules:
  - record: dep:name_matcher
    expr: count({__name__="ALERTS", alertname="Foo"})
  - record: dep:plain
    expr: count(ALERTS{alertname="Bar"})
Y
commit "remove alerts"
runci
