#!/bin/bash
# Removed recording rule with a dependant; the HEAD file also carries a malformed pint comment
# (which is reported on its own and does not stop the rules from being parsed).
. "$(dirname "$0")/lib.sh"
newrepo
cat > a.yml <<'Y'
groups:
- name: g
  rules:
  - record: a:src
    expr: sum(up)
  - record: a:dep
    expr: a:src > 0
Y
commit base
git checkout -q -b br
cat > a.yml <<'Y'
# pint file/owner
groups:
- name: g
  rules:
  - record: a:dep
    expr: a:src > 0
Y
commit "remove source"
runci
