#!/bin/bash
# Variant of f6: commit 1 edits rules/dep.yml, commit 2 moves it out of the included paths and
# removes a:src. At HEAD nothing that pint checks depends on a:src, yet a warning lists rules/dep.yml.
. "$(dirname "$0")/lib.sh"
newrepo
cat > .pint.hcl <<'Y'
parser {
  include = ["rules/.*"]
}
Y
mkdir rules disabled
cat > rules/src.yml <<'Y'
groups:
- name: g
  rules:
  - record: a:src
    expr: sum(up)
  - record: a:other
    expr: sum(up)
Y
cat > rules/dep.yml <<'Y'
groups:
- name: g
  rules:
  - record: a:dep
    expr: a:src > 0
Y
commit base
git checkout -q -b br
cat > rules/dep.yml <<'Y'
groups:
- name: g
  rules:
  - record: a:dep
    expr: a:src > 1
Y
commit "edit dep"
git mv rules/dep.yml disabled/dep.yml
cat > rules/src.yml <<'Y'
groups:
- name: g
  rules:
  - record: a:other
    expr: sum(up)
Y
commit "retire dep, drop src"
git log --name-status --format=%H main..HEAD
ls -R rules disabled
runci
