#!/bin/bash
# parser.include = rules/.*  ; the file holding a:src is moved out of rules/ (to disabled/),
# so at HEAD no checked rule file provides a:src any more. Same thing done with `git rm` is reported.
. "$(dirname "$0")/lib.sh"
for how in rm mv; do
newrepo
cat > .pint.hcl <<'Y'
parser {
  include = ["rules/.*"]
}
Y
mkdir rules disabled
cat > rules/src.yml <<'Y'
groups:
- name: g
  rules:
  - record: a:src
    expr: sum(up)
Y
cat > rules/dep.yml <<'Y'
groups:
- name: g
  rules:
  - record: a:dep
    expr: a:src > 0
Y
commit base
git checkout -q -b br
if [ $how = rm ]; then git rm -q rules/src.yml; else git mv rules/src.yml disabled/src.yml; fi
commit "$how"
echo "=== $how"
git log --name-status --format=%H main..HEAD
runci
done
