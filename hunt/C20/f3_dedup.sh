#!/bin/bash
# Two unrelated recording rules removed, each has exactly one (different) dependant.
. "$(dirname "$0")/lib.sh"
newrepo
cat > a.yml <<'Y'
groups:
- name: g
  rules:
  - record: a:src
    expr: sum(up)
  - record: a:dep
    expr: a:src > 0
Y
cat > b.yml <<'Y'
groups:
- name: g
  rules:
  - record: b:src
    expr: sum(up)
  - record: b:dep
    expr: b:src > 0
Y
commit base
git checkout -q -b br
cat > a.yml <<'Y'
groups:
- name: g
  rules:
  - record: a:dep
    expr: a:src > 0
Y
cat > b.yml <<'Y'
groups:
- name: g
  rules:
  - record: b:dep
    expr: b:src > 0
Y
commit "remove sources"
runci
