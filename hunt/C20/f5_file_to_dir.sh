#!/bin/bash
# File "rules" is deleted and a directory "rules/" with a new file takes its place.
# a:src is gone at HEAD, a:dep (in other.yml) still uses it.
. "$(dirname "$0")/lib.sh"
newrepo
cat > rules <<'Y'
groups:
- name: g
  rules:
  - record: a:src
    expr: sum(up)
Y
cat > other.yml <<'Y'
groups:
- name: g
  rules:
  - record: a:dep
    expr: a:src > 0
Y
commit base
git checkout -q -b br
git rm -q rules
mkdir rules
cat > rules/new.yml <<'Y'
groups:
- name: g
  rules:
  - alert: SomethingCompletelyDifferent
    expr: absent(node_time_seconds) == 1
    for: 15m
    labels:
      severity: page
    annotations:
      summary: nothing in common with the deleted file so git does not call it a rename
Y
commit "split"
git log --name-status --format=%H main..HEAD
runci
