#!/bin/bash
# The removal of a:src arrives on the checked branch through a merge of a side branch.
# `git diff main...HEAD` shows the removal, pint ci does not.
. "$(dirname "$0")/lib.sh"
newrepo
cat > a.yml <<'Y'
groups:
- name: g
  rules:
  - record: a:src
    expr: sum(up)
  - record: a:dep
    expr: a:src > 0
Y
commit base
git checkout -q -b cleanup
cat > a.yml <<'Y'
groups:
- name: g
  rules:
  - record: a:dep
    expr: a:src > 0
Y
commit "remove a:src"
git checkout -q main
git checkout -q -b feature
cat > b.yml <<'Y'
groups:
- name: g
  rules:
  - record: b:new
    expr: sum(up)
Y
commit "add b"
git merge -q --no-ff -m "merge cleanup" cleanup
git diff --stat main...HEAD
runci
