#!/bin/bash
# Same removal done in an ASCII-named file and in a file with a non-ASCII name.
. "$(dirname "$0")/lib.sh"
newrepo
for f in plain.yml "règles.yml"; do
p=$( [ "$f" = plain.yml ] && echo a || echo b )
cat > "$f" <<Y
groups:
- name: g
  rules:
  - record: ${p}:src
    expr: sum(up)
  - record: ${p}:dep
    expr: ${p}:src > 0
Y
done
commit base
git checkout -q -b br
for f in plain.yml "règles.yml"; do
p=$( [ "$f" = plain.yml ] && echo a || echo b )
cat > "$f" <<Y
groups:
- name: g
  rules:
  - record: ${p}:dep
    expr: ${p}:src > 0
Y
done
commit "remove sources"
git log --name-status --format=%H main..HEAD
runci
