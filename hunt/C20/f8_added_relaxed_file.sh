#!/bin/bash
# Adjacent to the property: a rule file ADDED on the branch under a parser.relaxed path is parsed with the strict parser by GitBranchFinder.Find
# (the parser mode is chosen from change.Path.Before.Name, which is "" for added files), so the replacement rule shows up as a Fatal yaml/parse error.
. "$(dirname "$0")/lib.sh"
newrepo
cat > .pint.hcl <<'Y'
parser {
  relaxed = ["relaxed/.*"]
}
Y
mkdir relaxed rules
cat > rules/a.yml <<'Y'
groups:
- name: g
  rules:
  - record: a:src
    expr: sum(up)
  - record: a:dep
    expr: a:src > 0
Y
cat > relaxed/x.yml <<'Y'
- record: x
  expr: sum(up)
Y
commit base
git checkout -q -b br
cat > rules/a.yml <<'Y'
groups:
- name: g
  rules:
  - record: a:dep
    expr: a:src > 0
Y
cat > relaxed/new.yml <<'Y'
- record: a:src
  expr: sum(up)
Y
commit "move a:src to relaxed file"
runci
