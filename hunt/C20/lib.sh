# helper: source this. Creates a fresh git repo in $WORK with main branch.
PINT=${PINT:-/tmp/pint-fixed}
WORKS=()
trap 'cd /; rm -rf "${WORKS[@]}"' EXIT
newrepo() {
  WORK=$(mktemp -d /tmp/hunt-C20-work.XXXXXX)
  WORKS+=("$WORK")
  cd "$WORK" || exit 1
  git init -q -b main .
  git config user.email a@b.c
  git config user.name t
  git config commit.gpgsign false
}
commit() { git add -A . && git commit -q -m "$1"; }
# prints console output, then for each rule/dependency problem: path, lines, details
runci() {
  "$PINT" --no-color -l error "$@" ci --base-branch main --json /tmp/hunt-C20-out.$$.json 2>&1
  echo "exit=$?"
  echo "--- rule/dependency problems (from --json):"
  python3 - /tmp/hunt-C20-out.$$.json <<'PY'
import json,sys
try:
    d=json.load(open(sys.argv[1]))
except Exception as e:
    print("no json:",e); sys.exit(0)
n=0
for r in d:
    if r.get("reporter")=="rule/dependency":
        n+=1
        print(r["path"], r.get("lines"), r.get("rule"), "\n"+r.get("details",""))
print("count=%d"%n)
PY
  rm -f /tmp/hunt-C20-out.$$.json
}
