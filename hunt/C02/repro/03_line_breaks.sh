#!/bin/bash
# YAML breaks lines on CR, NEL, LS and PS too; pint only counts LF. Reports end up outside the file or on the wrong rule.
. "$(dirname "$0")/common.sh"
fail=0
# (a) lone CR line ends: a one line file gets a report for line 3
printf 'groups:\r- name: g\r  rulez:\r  - record: foo\r    expr: sum(up)\r' > lone_cr.yml
"$PINT" --no-color --offline -l error lint --json out.json lone_cr.yml 2>&1 | head -5
python3 - <<'PY' || fail=1
import json,sys
data=open('lone_cr.yml','rb').read(); n=data.count(b'\n')+(0 if data.endswith(b'\n') else 1)
bad=[r for r in json.load(open('out.json')) if not r['lines'] or min(r['lines'])<1 or max(r['lines'])>n]
for r in bad: print('VIOLATION (a): file has', n, 'line(s), report for lines', r['lines'], '-', r['problem'])
sys.exit(1 if bad else 0)
PY
# (b) U+2028 inside a quoted annotation: the syntax error of rule foo (line 9) is reported on line 11, which belongs to rule bar
printf 'groups:\n- name: g\n  rules:\n  - alert: A\n    expr: up == 0\n    annotations:\n      summary: "first\xe2\x80\xa8second"\n  - record: foo\n    expr: sum(up) without(\n  - record: bar\n    expr: sum(up)\n' > line_separator.yml
"$PINT" --no-color --offline -l error lint --json out.json line_separator.yml 2>&1 | head -6
python3 - <<'PY' || fail=1
import json,sys
bad=[r for r in json.load(open('out.json')) if r['reporter']=='promql/syntax' and r['lines']!=[9]]
for r in bad: print('VIOLATION (b): the broken expr is on line 9, reported lines', r['lines'])
sys.exit(1 if bad else 0)
PY
rm -f out.json
[ $fail = 0 ] && echo ok
exit $fail
