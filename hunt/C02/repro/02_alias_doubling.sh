#!/bin/bash
# 45 lines of anchors, each holding two aliases of the previous one: relaxed mode walks 2^45 nodes and never finishes.
. "$(dirname "$0")/common.sh"
python3 - <<'PY'
lines=['a0: &a0 [x, y]']
for i in range(1,45):
    lines.append(f'a{i}: &a{i} [*a{i-1}, *a{i-1}]')
open('alias_doubling.yml','w').write('\n'.join(lines)+'\n')
PY
timeout 30 "$PINT" --no-color --offline -c relaxed.hcl lint alias_doubling.yml 2>&1 | head -5
rc=${PIPESTATUS[0]}
echo "exit code: $rc"
if [ "$rc" = 124 ]; then echo "VIOLATION: pint did not finish within 30s on a 45 line file"; exit 1; fi
echo "ok"
