# sourced by the reproducers
HERE="$(cd "$(dirname "${BASH_SOURCE[0]}")" && pwd)"
ROOT="$(cd "$HERE/../.." && pwd)"
PINT="${PINT:-/tmp/pint-C02}"
if [ ! -x "$PINT" ]; then
  (cd "$ROOT" && GOFLAGS=-mod=mod GOPROXY=off go build -tags stringlabels -o "$PINT" ./cmd/pint) || exit 2
fi
cd "$HERE"
