#!/bin/bash
# A YAML anchor that contains an alias of itself crashes pint (relaxed mode) with a stack overflow.
. "$(dirname "$0")/common.sh"
printf 'x: &a [*a]\n' > recursive_alias.yml
out=$(timeout 60 "$PINT" --no-color --offline -c relaxed.hcl lint recursive_alias.yml 2>&1); rc=$?
echo "$out" | head -8
echo "exit code: $rc"
if echo "$out" | grep -q "stack overflow"; then echo "VIOLATION: pint crashed with a stack overflow"; exit 1; fi
echo "ok"
