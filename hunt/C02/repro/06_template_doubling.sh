#!/bin/bash
# alerts/template executes annotation templates; 40 templates that each call the next one twice never finish.
. "$(dirname "$0")/common.sh"
python3 - <<'PY'
n=40
t=''.join('{{ define "t%d" }}{{ template "t%d" . }}{{ template "t%d" . }}{{ end }}'%(i,i+1,i+1) for i in range(n))
t+='{{ define "t%d" }}x{{ end }}{{ template "t0" . }}'%n
open('template_doubling.yml','w').write("groups:\n- name: g\n  rules:\n  - alert: A\n    expr: up == 0\n    annotations:\n      summary: '%s'\n"%t)
PY
timeout 30 "$PINT" --no-color --offline -l error lint template_doubling.yml 2>&1 | cut -c1-200 | head -5
rc=${PIPESTATUS[0]}
echo "exit code: $rc"
if [ "$rc" = 124 ]; then echo "VIOLATION: pint did not finish within 30s on a 7 line rule file"; exit 1; fi
echo ok
