parser {
  relaxed = [".*"]
}
