#!/bin/bash
# A merge key inside labels (valid for Prometheus, see ../merge_labels_test.go.txt) is reported as a fatal yaml/parse problem.
. "$(dirname "$0")/common.sh"
fail=0
for cfg in "" "-c relaxed.hcl"; do
  out=$("$PINT" --no-color --offline -l error $cfg lint merge_labels.yml 2>&1)
  echo "$out" | head -5
  if echo "$out" | grep -q "labels << value must be a string"; then echo "VIOLATION [$cfg]: a rule file Prometheus loads is rejected"; fail=1; fi
done
[ $fail = 0 ] && echo ok
exit $fail
