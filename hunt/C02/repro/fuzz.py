import random, subprocess, os, sys, json
random.seed(int(sys.argv[1]))
N=int(sys.argv[2])
seed = '''# pint file/owner bob
groups:
- name: g
  interval: 1m
  labels:
    team: a
  rules:
  # pint disable promql/series
  - alert: A
    expr: up{job="x"} == 0
    for: 5m
    keep_firing_for: 1m
    labels: &lab
      severity: page
    annotations:
      summary: "Instance {{ $labels.instance }} down {{ $value | humanize }}"
      description: |
        multi
        line {{ .Labels.job }}
  - record: job:up:sum
    expr: |
      sum(up) by(job)
      / count(up) by(job)
    labels:
      <<: *lab
      foo: bar
  - alert: B
    expr: >-
      rate(foo_total[5m]) > 0
      and on(job) bar
    annotations: {a: b, "c": 'd'}
'''
toks = ['&a ', '*a', '*lab', '<<: *lab', '<<: ', '!!str ', '!!binary ', '!!int ', '!!map ', '!!seq ', '!foo ', '|', '>', '|-', '|2', '>+', '"', "'", '{', '}', '[', ']', ',', ': ', '- ', '? ', '#', '# pint ignore/line', '# pint ignore/next-line', '# pint ignore/begin', '# pint ignore/end', '# pint ignore/file', '# pint disable x', '# pint snooze 2099-01-01 promql/series', '# pint rule/set promql/series(', '# pint rule/owner x', '# pint file/disable promql/rate', '---', '...', '\t', '\xff', '\x00', '\xef\xbb\xbf', '{{', '}}', '{{ $x := 1 }}', '{{ range }}', '{{ end }}', '{{ with $labels }}', '$labels', '$value', '.Labels', '\\n', '\\"', 'null', '~', 'true', '1', '0x10', '1e3', '.inf', '2001-01-01', 'groups:', 'rules:', 'record: ', 'alert: ', 'expr: ', 'for: ', 'labels:', 'annotations:', '\n', '\n\n', '  ', ' ', '%TAG ! tag:x,2000:\n', '%YAML 1.1\n', 'on()', 'group_left()', '[5m:1m]', 'offset 5m', '@ start()', 'ALERTS', 'absent(', ')', '(', 'sum by', '=~".*"', '{__name__=~"x"}']
lines = None
def mutate(s):
    b = s
    for _ in range(random.randint(1,4)):
        op = random.randint(0,7)
        if op == 0 and len(b):
            i = random.randrange(len(b)); b = b[:i] + random.choice(toks) + b[i:]
        elif op == 1 and len(b):
            i = random.randrange(len(b)); j = min(len(b), i+random.randint(1,12)); b = b[:i]+b[j:]
        elif op == 2:
            ls = b.split('\n'); 
            if len(ls)>1:
                i = random.randrange(len(ls)); ls.insert(random.randrange(len(ls)), ls[i]); b='\n'.join(ls)
        elif op == 3:
            ls = b.split('\n')
            if len(ls)>1:
                del ls[random.randrange(len(ls))]; b='\n'.join(ls)
        elif op == 4:
            ls = b.split('\n'); i = random.randrange(len(ls)); ls[i] = random.choice(['', ' ', '  ', '    ', '      ']) + ls[i].lstrip(); b='\n'.join(ls)
        elif op == 5:
            ls = b.split('\n'); i = random.randrange(len(ls)); ls[i] = ls[i] + ' ' + random.choice(toks); b='\n'.join(ls)
        elif op == 6:
            b = b.replace('\n', '\r\n') if '\r' not in b else b
        elif op == 7:
            ls = b.split('\n'); i = random.randrange(len(ls)); j = random.randrange(len(ls)); ls[i], ls[j] = ls[j], ls[i]; b='\n'.join(ls)
    if random.random() < 0.2: b = b.rstrip('\n')
    return b
os.makedirs('fz', exist_ok=True)
tag = sys.argv[1]
for n in range(N):
    content = mutate(seed)
    path = f'fz/t{tag}.yml'
    data = content.encode('latin-1', 'replace') if any(ord(c)>127 for c in content) else content.encode()
    open(path,'wb').write(data)
    nl = data.count(b'\n') + (0 if data.endswith(b'\n') or not data else 1)
    for cfg in ([], ['-c','relaxed.hcl']):
        jf = f'fz/o{tag}.json'
        extra = random.choice([[], ['--require-owner'], ['-n','info'], ['--teamcity']])
        cmd = ['/tmp/pint-C02','--no-color','-l','error','--offline']+cfg+['lint','--json',jf,'--checkstyle',f'fz/o{tag}.xml']+extra+[path]
        try:
            p = subprocess.run(cmd, capture_output=True, timeout=20)
        except subprocess.TimeoutExpired:
            keep = f'fz/hang-{tag}-{n}.yml'; open(keep,'wb').write(data); print('HANG', keep, cmd); continue
        err = p.stderr.decode('utf8','replace')
        bad = None
        if 'panic' in err or 'fatal error' in err or 'goroutine ' in err: bad = 'PANIC'
        elif p.returncode not in (0,1): bad = f'RC{p.returncode}'
        else:
            try:
                for r in json.load(open(jf)):
                    for l in r['lines']:
                        if l < 1 or l > max(nl,1): bad = f'LINE {l} of {nl} {r["reporter"]} {r["problem"][:50]}'
            except Exception as e:
                bad = f'JSON {e}'
        if bad:
            keep = f'fz/bad-{tag}-{n}.yml'; open(keep,'wb').write(data); print(bad, keep, ' '.join(cmd[5:]), flush=True)
