#!/bin/bash
# The checkstyle report lists the files in Go map order: the same run gives different documents.
. "$(dirname "$0")/common.sh"
mkdir -p cs
for i in 1 2 3 4 5 6 7 8; do printf 'groups:\n- name: g\n  rules:\n  - record: foo\n    expr: sum(up) without(\n' > cs/f$i.yml; done
for n in $(seq 1 12); do
  "$PINT" --no-color --offline -l error lint --checkstyle cs/out.xml cs/f*.yml >/dev/null 2>&1
  grep -o 'file name="[^"]*"' cs/out.xml | tr '\n' ' ' | md5sum
done | sort | uniq -c > cs/orders.txt
cat cs/orders.txt
n=$(wc -l < cs/orders.txt); rm -rf cs
if [ "$n" -gt 1 ]; then echo "VIOLATION: $n different file orders in 12 identical runs"; exit 1; fi
echo ok
