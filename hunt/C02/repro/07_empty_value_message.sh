#!/bin/bash
# A diagnostic that points at an empty value (for: "") is rendered by the console reporter without its message.
. "$(dirname "$0")/common.sh"
printf 'groups:\n- name: g\n  rules:\n  - alert: A\n    expr: up == 0\n    for: ""\n' > empty_for.yml
out=$("$PINT" --no-color --offline -l error lint --require-owner empty_for.yml 2>&1)
echo "$out"
fail=0
echo "$out" | grep -q "comments are required in all files" || { echo "VIOLATION: the rule/owner message is missing from the console report"; fail=1; }
n=$(echo "$out" | grep -c "\^")
[ "$n" = 0 ] && { echo "VIOLATION: no diagnostic line (carets + message) was printed for either problem"; fail=1; }
[ $fail = 0 ] && echo ok
exit $fail
