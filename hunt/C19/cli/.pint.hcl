parser {
  relaxed = [".*"]
}
