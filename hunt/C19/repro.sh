#!/bin/bash
# Runs the Go reproducers against the unchanged tree, then the CLI reproducer. The test file is removed afterwards.
cd /tmp/hunt-C19 || exit 1
export GOFLAGS=-mod=mod GOPROXY=off
cp HUNT/c19_findings_test.go.txt internal/parser/c19_findings_test.go
go test -tags stringlabels -count=1 -run 'TestC19' ./internal/parser/ 2>&1 | grep -v '^WARNING conda'
rm -f internal/parser/c19_findings_test.go
echo
echo "=== CLI: three files with the same broken rule, only the mapping-only wrapper is reported (entries=1)"
go build -tags stringlabels -o /tmp/pint-C19 ./cmd/pint || exit 1
cd HUNT/cli && /tmp/pint-C19 --no-color --offline -c .pint.hcl lint rules 2>&1 | grep -v '^WARNING conda'
