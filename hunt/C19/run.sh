#!/bin/bash
# usage: HUNT/run.sh [-s] file...   (files relative to HUNT/in); dumps what relaxed (and with -s strict) mode finds
cd /tmp/hunt-C19
export GOFLAGS=-mod=mod GOPROXY=off
if [ "$1" = "-s" ]; then export HUNT_STRICT=1; shift; fi
files=""
for f in "$@"; do files="$files,/tmp/hunt-C19/HUNT/in/$f"; done
cp HUNT/dump_test.go.txt internal/parser/hunt_c19_dump_test.go
HUNT_FILE="${files#,}" go test -tags stringlabels -count=1 -v -run TestHuntDump ./internal/parser/ 2>&1 | grep -v '^WARNING conda'
rm -f internal/parser/hunt_c19_dump_test.go
