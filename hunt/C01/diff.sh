#!/bin/sh
# usage: diff.sh SEED N  -- generate N files, run pint (strict, offline, default checks) and Prometheus's loader, print files pint passes but Prometheus rejects
cd "$(dirname "$0")" || exit 1; mkdir -p fuzz
OUT=fuzz/out$1
python3 gen.py "$1" "$2" "$OUT"
(cd "$OUT" && /tmp/pint-C01 --offline -l error --no-color lint --json ../report$1.json . >/dev/null 2>../pint$1.err; echo "pint exit $?")
/tmp/promload-C01 "$OUT"/*.yml > fuzz/prom$1.txt
python3 - "$1" <<'PY'
import json, sys, re
seed = sys.argv[1]
rep = json.load(open(f'fuzz/report{seed}.json'))
bad = set()
for r in rep:
    if r['severity'] in ('Bug', 'Fatal'):
        bad.add(r['path'].split('/')[-1])
rej = {}
for line in open(f'fuzz/prom{seed}.txt', errors='replace'):
    m = re.match(r'.*/(f\d+\.yml): PROMETHEUS (ACCEPT|REJECT)(.*)', line)
    if m: rej[m.group(1)] = (m.group(2), m.group(3))
n = 0
for f, (v, msg) in sorted(rej.items()):
    if v == 'REJECT' and f not in bad:
        n += 1
        print('VIOLATION', f, msg[:150])
print(len(rej), 'files;', sum(1 for v in rej.values() if v[0] == 'REJECT'), 'rejected by Prometheus;', len(bad), 'flagged by pint;', n, 'violations')
PY
