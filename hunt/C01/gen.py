#!/usr/bin/env python3
# Differential generator: writes N rule files into fuzz/out/, every field independently valid / invalid / mistyped / duplicated / missing.
import random, sys, os, shutil
seed = int(sys.argv[1]); n = int(sys.argv[2]); out = sys.argv[3]
R = random.Random(seed)
shutil.rmtree(out, ignore_errors=True); os.makedirs(out)

def pick(*xs): return R.choice(xs)
F = float(os.environ.get('FAULT', '0.06'))
def wild(): return R.random() < F
SAFE_EXPR = ['up', 'up == 0', 'sum(rate(foo[5m])) by (job) > 0', 'foo > 1', 'up{job="a"} == 0']
SAFE_DUR = ['5m', '1h', '1d2h', '1h30m']
SAFE_TMPL = ['text', 'other text']

STR_OK = ['foo', '"foo"', "'foo'", 'foo:bar', 'Foo_1', '"foo bar"', '"żółw"']
MISTYPED = ['1', 'true', '1.5', '[a]', '{a: b}', '~', 'null', '""', "''", '2001-01-01', '0x10', '!!str 1', '!!str', '|\n        foo', '>\n        foo', '.inf', '<<', '=', '"\\u00e9"', '"a\\nb"', '"\\0"', '- a']
DUR = ['5m', '1h', '0s', '0', '1d2h', '2h1d', '1.5m', '" 5m"', '"5m "', '-5m', '5', '5M', '1y', '1w1d', '""', '~', '5m5m', '1h30m', '"5m\\n"', '0m', '00s', '1ms', '1us', '999999999y', '9223372036s','10000000000000000000ms', '+5m', '١m', '5 m']
EXPR = ['up', 'up == 0', 'sum(rate(foo[5m])) by (job) > 0', '1', '"foo"', 'foo{', 'sum(', 'up ==', 'rate(foo[5])', 'rate(foo[5m:])', 'foo offset -5m', 'foo @ start()', 'foo[5m]', 'up == bool 1', 'vector(1)', 'time()', 'foo{a=~"("}', '{"foo"}', '{"foo bar"} > 0', 'foo{"bar baz"="x"}', 'sort_by_label(up, "job")', 'limitk(1, up)', 'foo[5m] > 1', 'up and on() vector(1)', 'up > 0 unless foo', 'sum without() (up)', 'histogram_quantile(0.9, foo)', 'info(up)', 'up atan2 up', 'foo{a="\\x"}', 'up # c', '|\n        up\n        > 0', '>-\n        up\n        > 0', '1 + ', 'foo{job="a",}', 'foo{,}', 'min_over_time(up[1h:5m] offset 1d)', 'up[5m:1m:]', 'sum by(job,) (up)', 'label_replace(up, "a", "b", "c", "(")', 'label_replace(up, "a b", "b", "c", "d")', 'label_join(up, "", "b", "c")', 'foo{a!~".+"} offset 5y', 'foo{__name__="x"}', '{__name__=~"a|b"}', '{a="b"}', '{}', '{a=~".*"}', 'quantile(2, up)', 'topk(up, up)', 'count_values("a b", up)', 'count_values("", up)', 'round(up, "a")', 'absent(up, up)', 'time(1)', 'up == on(a) group_left(a) up', 'up + on(a) group_left(b) ignoring(c) up', 'up and bool up', '1 == 1', '1 > bool 1', '"a" + 1', 'foo[5m] offset 1m @ 1', 'foo @ 1 @ 2', 'foo offset 1m offset 2m', 'start()', '-up', '+"a"', '(up)[5m]', 'up[5m][5m]', 'rate(up[5m])[5m:]', '0x1F', '1e3', 'Inf', 'NaN', '1_000', '5m', '5m + 1', 'foo[1_0m]', 'foo[5m+1m]', 'foo[0]', 'foo[0s]', 'foo[-5m]', 'foo offset 0', 'holt_winters(up[5m], 0.5, 0.5)', 'double_exponential_smoothing(up[5m], 0.5, 0.5)', 'mad_over_time(up[5m])', 'last_over_time(up[5m])', 'sort_desc(up)', 'max_of(up)', 'ts_of_last_over_time(up[5m])', 'first_over_time(up[5m])', 'step()', 'foo[step()]', 'up smoothed', 'up anchored', 'avg(up) by (job) without (a)', 'avg by (job) (up) by (job)', 'sum(up) keep_common', 'up{a="b"}{c="d"}', 'up{a="b" or c="d"}', 'up{or="b"}', 'sum{a="b"}', 'by', 'on', 'bool', 'offset', 'group_left', 'sum', 'inf{a="b"}', 'nan', 'up == NaN', 'a:b:c', ':a', 'a:', '{":a"}', 'foo{bar:baz="x"}', 'foo.bar', 'foo-bar', 'foo/0', 'foo%0', 'foo^^2', 'foo**2', 'foo!=bool 1', 'foo=~1', 'up == 1 == 1', '1 and 1', 'up or 1', 'vector(1) and vector(1)', 'scalar(up) and up']
TMPL = ['text', '{{ $value }}', '{{ $labels.job }}', '{{ $value | humanize }}', '{{ bogus }}', '{{ $labels.job', '{{ .Labels.foo }}', '{{ $externalURL }}', '{{ $x }}', '{{ with $value }}{{ . }}{{ end }}', '{{ end }}', '{{ range query "up" }}{{ .Value }}{{ end }}', '{{ range query "up" }}', '{{ if }}x{{ end }}', '{{ printf "%s" }}', '{{ humanize }}', '{{ "a" | toUpper }}', '{{ $value | humanizeDuration | bogus }}', '{{/* c */}}', '{{- $value -}}', '{{ define "x" }}a{{ end }}', '{{ template "x" }}', '{{ block "x" . }}a{{ end }}', '{{ break }}', '{{ continue }}', '{{ range $i, $e := query "x" }}{{ break }}{{ end }}', '{{ $value := 1 }}', '{{ $labels := 1 }}', '{{ . }}', '{{ .Foo }}', '{{ $.Foo }}', '{{ nil }}', '{{ 1 2 }}', '{{ (1) }}', '{{ index $labels "a" }}', '{{ len }}', '{{ and }}', '{{ not }}', '{{ eq 1 }}', '{{ call }}', '{{ html }}', '{{ urlquery }}', '{{ js }}', '{{ print }}', '{{ slice }}', '{{ `raw` }}', "{{ 'a' }}", '{{ 1e }}', '{{ 0x }}', '{{ $value | }}', '{{ | humanize }}', '{{ else }}', '{{ if 1 }}a{{ else if 2 }}b{{ else }}c{{ end }}', '{{ if 1 }}{{ else }}{{ else }}{{ end }}', '{{ with 1 }}{{ else with 2 }}{{ end }}', '{{ range 5 }}{{ end }}', '{{ externalURL }}', '{{ pathPrefix }}', '{{ parseDuration "1h" }}', '{{ toTime 1 }}', '{{ toDuration 1 }}', '{{ now }}', '{{ urlQueryEscape "a" }}', '{{ safeHtml "a" }}', '{{ stripPort "a:1" }}', '{{ stripDomain "a.b" }}', '{{ args 1 2 }}', '{{ tmpl "x" . }}', '{{ label "a" . }}', '{{ value . }}', '{{ strvalue . }}', '{{ first . }}', '{{ sortByLabel "a" . }}', '{{ graphLink "up" }}', '{{ tableLink "up" }}', '{{ match "a" "b" }}', '{{ reReplaceAll "(" "b" "c" }}', '{{ title "a" }}', '{{ humanize1024 1 }}', '{{ humanizePercentage 1 }}', '{{ humanizeTimestamp 1 }}', '{{ query "up" | first | value }}', '{{ query }}', '}}', '{{', '{{}}', '{{ }}', '{{"}}', '{{ "\\x" }}', '{{ $ }}', '{{ $. }}', '{{ .. }}', '{{ .1 }}', '{{ 1.a }}', '{{ $labels.a.b.c }}', '{{ $labels."a" }}', '{{ true.a }}', '{{ nil.a }}', '{{ (nil) }}', '{{ "a".b }}', '{{ (1).a }}', '{{ $value.a }}']

def q(s):
    return "'" + s.replace("'", "''") + "'"

def scalar(ok_list):
    r = R.random()
    if not wild(): return pick(*ok_list)
    return pick(*MISTYPED)

def strmap(kind, idx):
    if wild(): return pick('~', '[]', 'foo', '1', '{}', '[a, b]', '""')
    items = []
    for i in range(R.randint(1, 3)):
        k = pick('a', 'b', 'job', 'summary') if not wild() else pick('a', 'b', 'job', 'summary', '__name__', '"a b"', '""', '1', 'true', '~', '"a.b"', '__foo__', '"0a"', '"é"', 'a-b', '[a]', 'le', 'alertname', '"{{a}}"')
        if kind == 'tmpl' and R.random() < 0.8:
            v = q(pick(*TMPL) if wild() else pick(*SAFE_TMPL))
        else:
            v = scalar(STR_OK)
        if any(k == kk for kk, _ in items) and not wild(): continue
        items.append((k, v))
    if wild():
        items.append(items[0])
    if R.random() < 0.15:
        return '{' + ', '.join(f'{k}: {v}' for k, v in items if '\n' not in v) + '}'
    return ''.join(f'\n      {k}: {v}' for k, v in items)

def rule(fi, ri):
    lines = []
    kind = pick('record', 'alert', 'alert', 'both', 'none') if wild() else pick('record', 'alert')
    name = f'r{fi}_{ri}'
    fields = []
    def namev(n):
        if not wild(): return n
        return pick(*MISTYPED, '"a b"', 'a{b="c"}', '"{x}"', '0a', 'a-b', '"é"', '__name__', '"a:b"', '":"')
    if kind in ('record', 'both'): fields.append(('record', namev(name if kind == 'record' else name + 'r')))
    if kind in ('alert', 'both'): fields.append(('alert', namev(name)))
    r = R.random()
    if r < 0.93 or not wild():
        fields.append(('expr', (pick(*EXPR) if R.random() < 0.9 else pick(*MISTYPED)) if wild() else pick(*SAFE_EXPR)))
    isalert = kind == 'alert'
    if (isalert and R.random() < 0.5) or wild():
        fields.append(('for', ((pick(*DUR) if R.random() < 0.9 else pick(*MISTYPED)) if wild() else pick(*SAFE_DUR))))
    if (isalert and R.random() < 0.3) or wild():
        fields.append(('keep_firing_for', ((pick(*DUR) if R.random() < 0.9 else pick(*MISTYPED)) if wild() else pick(*SAFE_DUR))))
    if R.random() < 0.5:
        fields.append(('labels', strmap('tmpl' if isalert else 'plain', ri)))
    if (isalert and R.random() < 0.6) or wild():
        fields.append(('annotations', strmap('tmpl', ri)))
    if wild():
        fields.append((pick('foo', 'Expr', 'alerts', 'name', 'interval', 'rules', 'expr ', '""', '~', '1', 'keep_firing', 'annotation', 'label', 'EXPR', 'for_', 'record ', '"for"'), pick('x', '1', '{}', '[]', '~')))
    if wild() and fields:
        fields.append(R.choice(fields))
    R.shuffle(fields)
    if not fields: return '  - {}\n'
    s = ''
    for i, (k, v) in enumerate(fields):
        s += ('  - ' if i == 0 else '    ') + f'{k}: {v}\n'
    return s

def group(fi, gi):
    fields = []
    r = R.random()
    if not wild(): fields.append(('name', f'g{gi}'))
    elif r < 0.7: fields.append(('name', pick(*MISTYPED, 'g0', '" "')))
    if R.random() < 0.3: fields.append(('interval', ((pick(*DUR) if R.random() < 0.9 else pick(*MISTYPED)) if wild() else pick(*SAFE_DUR))))
    if R.random() < 0.2: fields.append(('query_offset', ((pick(*DUR) if R.random() < 0.9 else pick(*MISTYPED)) if wild() else pick(*SAFE_DUR))))
    if R.random() < 0.2: fields.append(('limit', pick('1', '10') if not wild() else pick('1', '0', '-1', '"1"', '1.5', '1e3', '0x10', '0o17', '0b11', '1_000', '~', 'a', 'true', '[1]', '99999999999999999999', '9223372036854775807', '9223372036854775808', '-9223372036854775809', '+1', '01', '0_1', '1.0', '.5', '+0x1', '0x', '1__0', '_1', '1_')))
    if R.random() < 0.2: fields.append(('labels', strmap('plain', gi).replace('\n      ', '\n    ')))
    if wild(): fields.append((pick('foo', 'partial_response_strategy', 'Name', 'rule', 'expr', '~', '""', 'query-offset', 'evaluation_interval', 'source_tenants', 'align_evaluation_time_on_interval'), pick('x', 'warn', '1', '[]', '~')))
    r = R.random()
    if not wild():
        rs = ''.join(rule(fi, f'{gi}_{i}') for i in range(R.randint(0, 3)))
        fields.append(('rules', ('\n' + rs.rstrip('\n')) if rs else pick('[]', '', '~')))
    elif r < 0.6:
        fields.append(('rules', pick('~', '{}', 'foo', '1', '[[]]', '[~]', '[foo]', '- []')))
    if wild() and fields:
        fields.append(R.choice(fields))
    R.shuffle(fields)
    if not fields: return '- {}\n'
    s = ''
    for i, (k, v) in enumerate(fields):
        s += ('- ' if i == 0 else '  ') + f'{k}: {v}\n'
    return s

def doc(fi):
    if wild(): return pick('', '\n', '# c\n', '---\n', '[]\n', 'foo\n', '~\n', 'groups:\n', 'groups: ~\n', 'groups: {}\n', 'groups: foo\n', 'groups: []\n', '{}\n', 'groups: [~]\n', 'groups: [[]]\n', 'groups: [{}]\n', '---\n...\n', '--- ~\n', '%YAML 1.2\n---\ngroups: []\n', '﻿groups: []\n', 'groups: []\n...\n', '? groups\n: []\n', '"groups": []\n', '!!str groups: []\n', 'groups: !!seq []\n', '!!map {groups: []}\n', '{groups: [], }\n', '{groups: []}\n', 'groups: []\ngroups: []\n', 'Groups: []\n', 'groups: []\nfoo: 1\n', 'rules: []\n', '- name: foo\n')
    gs = ''.join(group(fi, i) for i in range(R.randint(1, 2)))
    s = 'groups:\n' + gs
    if wild(): s += pick('foo: bar\n', '---\n', '---\ngroups: []\n', '...\n', '# end\n', 'groups: []\n', '\t\n', '  \n', '...\nfoo\n', '---\nfoo: [\n')
    if wild(): s = pick('---\n', '# c\n', '\n\n', '--- # c\n', '%YAML 1.1\n---\n', '﻿', '---\n---\n', '...\n') + s
    return s

for i in range(n):
    s = doc(i)
    # line-level mutation
    if wild():
        ls = s.split('\n')
        j = R.randrange(len(ls))
        m = R.random()
        if m < 0.25: del ls[j]
        elif m < 0.5: ls.insert(j, ls[j])
        elif m < 0.75: ls[j] = ' ' + ls[j]
        else: ls[j] = ls[j][1:]
        s = '\n'.join(ls)
    if wild() and s:
        j = R.randrange(len(s))
        s = s[:j] + pick('\t', ':', '#', '"', "'", '-', ' ', '\r', '{', '[', '&a ', '*a', '!', '|', '>', '%', '@', '`', ',', '?', '\x00', ' ', '\x85') + s[j+1:]
    if '# pint' in s: continue
    with open(os.path.join(out, f'f{i:05d}.yml'), 'w', newline='') as f: f.write(s)
