#!/bin/sh
# Reproduces every finding: for each file in cases/ prints pint's verdict (strict mode, default offline checks,
# no config file) next to the verdict of Prometheus's own loader (rulefmt.Parse(content, false)).
# A violation of the property is: pint exit 0 / no Bug or Fatal problem  AND  PROMETHEUS REJECT.
set -e
HERE="$(cd "$(dirname "$0")" && pwd)"
ROOT="$(dirname "$HERE")"
export GOFLAGS=-mod=mod GOPROXY=off
cd "$ROOT"
go build -tags stringlabels -o /tmp/pint-C01 ./cmd/pint
mkdir -p "$HERE/_build/promload"
cp "$HERE/promload.go.txt" "$HERE/_build/promload/main.go"
go build -tags stringlabels -o /tmp/promload-C01 ./HUNT/_build/promload
rm -rf "$HERE/_build"
cd "$HERE"
for f in ${@:-cases/*.yml}; do
  echo "=== $f"
  set +e
  /tmp/pint-C01 --offline --no-color -l error lint "$f" > /tmp/pint-C01.out 2>&1
  rc=$?
  set -e
  n=$(grep -cE '^(Bug|Fatal):' /tmp/pint-C01.out || true)
  echo "pint: exit=$rc, Bug/Fatal problems=$n"
  /tmp/promload-C01 "$f"
done
