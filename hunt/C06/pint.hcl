parser {
  relaxed = [".*"]
}
