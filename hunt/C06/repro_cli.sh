#!/bin/sh
# Command line reproducers for HUNT/findings.json. Run from the root of the worktree:
#   sh HUNT/repro_cli.sh
# Every file under HUNT/cli is a valid rule file. For each of them pint prints a problem whose
# line number and/or carets do not point at the text the message talks about (see findings.json
# for what is expected). a-ok.yml and d-nested-ok.yml are the correctly reported baselines.
set -u
cd "$(dirname "$0")/.." || exit 1
export GOFLAGS=-mod=mod GOPROXY=off
BIN=${BIN:-/tmp/pint-C06}
[ -x "$BIN" ] || go build -tags stringlabels -o "$BIN" ./cmd/pint || exit 1
for f in \
  a-ok a-header-comment a-chomp-minus h-leading-blank \
  b-indent1 b-plain-cont b-flow \
  c-folded-blank c-trailing-space \
  d-nested-ok d-nested-blank-first d-nested-indicator d-nested-folded \
  e-escaped-nl \
  f-dquote \
  g-unicode-ls \
  i-nonascii-flow
do
  echo "################ HUNT/cli/$f.yml"
  "$BIN" --no-color -l error -c HUNT/pint.hcl lint "HUNT/cli/$f.yml" 2>&1 | grep -v '^level='
done
