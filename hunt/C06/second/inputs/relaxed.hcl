parser {
  relaxed = [".*"]
}
