#!/bin/sh
# Reproduces all findings. Build first:
#   cd /tmp/hunt7-C06 && GOFLAGS=-mod=mod GOPROXY=off go build -tags stringlabels -o /tmp/pint-C06 ./cmd/pint
# Optional field-by-field read-back harness: copy HUNT/readback_harness_test.go.txt to
# internal/parser/zz_hunt_test.go and run
#   HUNT_FILE=<file> HUNT_STRICT=1 go test -tags stringlabels -v -count=1 -run TestHuntC06 ./internal/parser/
PINT=${PINT:-/tmp/pint-C06}
cd "$(dirname "$0")/inputs" || exit 1
run() { echo "=== $*"; "$PINT" --no-color "$@" 2>&1 | grep -v -e 'level=' -e WARNING; }
echo "### F1 anchor name matched as start of value: carets under '&up' instead of 'up'"
run lint --show-duplicates anc2.yml
echo "### F2 nested (relaxed) block scalar starting with a blank line: carets shifted left by the block indentation"
run -c relaxed.hcl lint --show-duplicates nest.yml
echo "### F3 tab between key and value: caret line uses one space for the tab (view with cat -A)"
run lint --show-duplicates tabs.yml | cat -A
echo "### F4 multi-line quoted scalar with shallow continuation: expr positions run to EOF, rule/problem lines 5-11 swallow other rules"
run lint --show-duplicates run.yml
echo "### F5 second diagnostic loses its carets when its value offsets equal those of the first diagnostic on another field (dp.yml) vs dp2.yml"
run lint dp.yml
run lint dp2.yml
