#!/usr/bin/env python3
"""Fake Prometheus upstream: fakeprom.py PORT MODE
MODE: healthy | json_internal_500 | json_unavailable_503 | proxy_json_502 | truncated | stalled
Every request is appended to /tmp/hunt-C15-fakeprom-PORT.log so that a script can see which upstream was contacted."""
import sys, time, socket
from http.server import BaseHTTPRequestHandler, ThreadingHTTPServer

port, mode = int(sys.argv[1]), sys.argv[2]
LOG = "/tmp/hunt-C15-fakeprom-%d.log" % port
open(LOG, "w").close()

def ok_body(path):
    if path.endswith("/api/v1/query"):
        return '{"status":"success","data":{"resultType":"vector","result":[{"metric":{},"value":[1700000000,"1"]}]}}'
    if path.endswith("/api/v1/query_range"):
        return '{"status":"success","data":{"resultType":"matrix","result":[]}}'
    if path.endswith("/api/v1/status/config"):
        return '{"status":"success","data":{"yaml":"global:\\n  scrape_interval: 30s\\n"}}'
    if path.endswith("/api/v1/status/flags"):
        return '{"status":"success","data":{"storage.tsdb.retention.time":"15d"}}'
    if "/api/v1/metadata" in path:
        return '{"status":"success","data":{}}'
    return '{}'

class H(BaseHTTPRequestHandler):
    protocol_version = "HTTP/1.1"
    def log_message(self, *a): pass
    def handle_any(self):
        n = int(self.headers.get("Content-Length") or 0)
        if n: self.rfile.read(n)
        path = self.path.split("?")[0]
        with open(LOG, "a") as f: f.write(path + "\n")
        def reply(code, body):
            b = body.encode()
            self.send_response(code)
            self.send_header("Content-Type", "application/json")
            self.send_header("Content-Length", str(len(b)))
            self.end_headers()
            self.wfile.write(b)
        if mode == "healthy":
            reply(200, ok_body(path))
        elif mode == "json_internal_500":
            reply(500, '{"status":"error","errorType":"internal","error":"tsdb is not ready"}')
        elif mode == "json_unavailable_503":
            reply(503, '{"status":"error","errorType":"unavailable","error":"Service Unavailable"}')
        elif mode == "proxy_json_502":
            reply(502, '{"message":"bad gateway"}')
        elif mode in ("truncated", "stalled"):
            b = ok_body(path).encode()
            self.send_response(200)
            self.send_header("Content-Type", "application/json")
            self.send_header("Content-Length", str(len(b)))
            self.end_headers()
            self.wfile.write(b[:len(b)//2]); self.wfile.flush()
            if mode == "stalled":
                time.sleep(10)
            self.close_connection = True
            try: self.connection.shutdown(socket.SHUT_RDWR)
            except OSError: pass
    do_GET = handle_any
    do_POST = handle_any

ThreadingHTTPServer.allow_reuse_address = True
ThreadingHTTPServer(("127.0.0.1", port), H).serve_forever()
