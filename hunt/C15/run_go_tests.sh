#!/bin/bash
# Copies the Go reproducer into internal/promapi, runs it and removes it again.
# usage: run_go_tests.sh [-run regexp]   (default: all TestHunt* tests)
cd "$(dirname "$0")/.."
cp HUNT/hunt_matrix_test.go.txt internal/promapi/hunt_matrix_test.go
trap "rm -f internal/promapi/hunt_matrix_test.go" EXIT
GOFLAGS=-mod=mod GOPROXY=off go test -tags stringlabels ./internal/promapi/ -run "${1:-TestHunt}" -count=1 -v 2>&1 | grep "hunt_matrix_test\|^---\|^ok\|FAIL\|panic"
