#!/bin/bash
# An unparsable failover URI passes config validation (`pint config` exits 0) and pint crashes with a nil pointer
# dereference the first time the failover is needed, i.e. only when the primary is unavailable.
cd "$(dirname "$0")"
PINT=${PINT:-/tmp/pint-C15}
[ -x "$PINT" ] || (cd .. && GOFLAGS=-mod=mod GOPROXY=off go build -tags stringlabels -o "$PINT" ./cmd/pint)
cat > /tmp/hunt-C15-crash.hcl <<HCL
prometheus "prom" {
  uri      = "http://127.0.0.1:1"
  failover = ["127.0.0.1:9090"]
  timeout  = "1s"
}
HCL
"$PINT" -c /tmp/hunt-C15-crash.hcl --no-color config >/dev/null 2>&1; echo "pint config exit=$? (validation accepted the failover URI)"
"$PINT" -c /tmp/hunt-C15-crash.hcl --no-color lint rules.yml 2>&1 | grep -v "^level=INFO" | head -12
echo "pint lint exit=${PIPESTATUS[0]}"
# for comparison the same value as `uri` is rejected at load time:
cat > /tmp/hunt-C15-crash2.hcl <<HCL
prometheus "prom" {
  uri      = "127.0.0.1:9090"
}
HCL
"$PINT" -c /tmp/hunt-C15-crash2.hcl --no-color lint rules.yml 2>&1 | grep -v "^level=INFO" | head -3
