#!/bin/bash
# usage: run_e2e.sh PRIMARY_MODE [required]
# Starts a faulty primary (port 19415) and a healthy failover (port 19416), runs `pint lint` with only query/cost
# enabled, and shows the reported problems and which upstream was contacted.
cd "$(dirname "$0")"
PINT=${PINT:-/tmp/pint-C15}
[ -x "$PINT" ] || (cd .. && GOFLAGS=-mod=mod GOPROXY=off go build -tags stringlabels -o "$PINT" ./cmd/pint)
MODE=$1
python3 fakeprom.py 19415 "$MODE" & P1=$!
python3 fakeprom.py 19416 healthy & P2=$!
trap "kill $P1 $P2 2>/dev/null" EXIT
sleep 1
cat > /tmp/hunt-C15-e2e.hcl <<HCL
prometheus "prom" {
  uri      = "http://127.0.0.1:19415"
  failover = ["http://127.0.0.1:19416"]
  timeout  = "1s"
  required = ${2:-false}
}
checks {
  enabled = ["query/cost"]
}
rule {
  cost {}
}
HCL
"$PINT" -c /tmp/hunt-C15-e2e.hcl --no-color lint rules.yml 2>&1 | grep -v "^level=INFO"
echo "--- requests seen by primary ($MODE):";  cat /tmp/hunt-C15-fakeprom-19415.log
echo "--- requests seen by healthy failover:"; cat /tmp/hunt-C15-fakeprom-19416.log
